package main

// C19: race-detector stress.
//
//   psh c19stress  the workload. It is meaningful only in the binary built with `go build -race` (work/bin/psh-race):
//                  real SwapService + real watchers + real policy.Policy over the simulated chain, hammered from
//                  several goroutines through every concurrent entry point (peer messages, watcher callbacks and block
//                  notifications, payment notifications, timeouts, recovery after a restart, RPC-style calls, policy
//                  commands). Race reports go to the files named by GORACE=log_path=...
//   psh c19        the driver: runs the race binary, parses its reports, maps both accesses of every report to
//                  (function, field class) through the skeleton's site table, and writes the correspondence cases.

import (
	"encoding/json"
	"flag"
	"fmt"
	"os"
	"os/exec"
	"path/filepath"
	"regexp"
	"runtime/pprof"
	"sort"
	"strconv"
	"strings"
	"sync"
	"sync/atomic"
	"time"

	pslog "github.com/elementsproject/peerswap/log"
	"github.com/elementsproject/peerswap/swap"
)

// ---------------------------------------------------------------- workload

type c19Swap struct {
	id   *swap.SwapId
	role string
}

type c19Stress struct {
	n      *c18Node
	svcMu  sync.RWMutex
	svc    *swap.SwapService
	to     *swap.VerifTimeouts
	mu     sync.Mutex
	swaps  []c19Swap
	nscid  int64
	stop   int32
	counts sync.Map
}

func (s *c19Stress) count(k string) {
	v, _ := s.counts.LoadOrStore(k, new(int64))
	atomic.AddInt64(v.(*int64), 1)
}
func (s *c19Stress) stopped() bool { return atomic.LoadInt32(&s.stop) == 1 }
func (s *c19Stress) service() (*swap.SwapService, *swap.VerifTimeouts) {
	s.svcMu.RLock()
	defer s.svcMu.RUnlock()
	return s.svc, s.to
}
func (s *c19Stress) node() *c18Node {
	s.svcMu.RLock()
	defer s.svcMu.RUnlock()
	return s.n
}
func (s *c19Stress) pick(r *Rng) (c19Swap, bool) {
	s.mu.Lock()
	defer s.mu.Unlock()
	if len(s.swaps) == 0 {
		return c19Swap{}, false
	}
	k := len(s.swaps) - 1 - r.Intn(min(len(s.swaps), 6))
	return s.swaps[k], true
}
func (s *c19Stress) add(id *swap.SwapId, role string) {
	s.mu.Lock()
	s.swaps = append(s.swaps, c19Swap{id, role})
	s.mu.Unlock()
}
func (s *c19Stress) scid() string {
	return fmt.Sprintf("%dx1x0", 100+atomic.AddInt64(&s.nscid, 1))
}

func (s *c19Stress) deliver(svc *swap.SwapService, msg swap.PeerMessage) {
	b, t, err := swap.MarshalPeerswapMessage(msg)
	if err != nil {
		return
	}
	_ = svc.OnMessageReceived(s.node().peer, hexType(messageTypeOf(t)), b)
}

// new swaps in every role
func (s *c19Stress) starter(r *Rng) {
	for !s.stopped() {
		svc, _ := s.service()
		n := s.node()
		k := r.Intn(4)
		if (k == 0 || k == 3) && n.pol.IsPeerSuspicious(n.peer) {
			// a CSV refund puts the peer on the suspicious list; the operator takes it off again
			_ = n.pol.RemoveFromSuspiciousPeerList(n.peer)
		}
		switch k {
		case 0: // maker, we initiate a swap in
			sm, err := svc.SwapIn(n.peer, n.chainNm, s.scid(), n.self, uint64(100000+r.Intn(1000)), 100000)
			if err == nil {
				s.add(sm.SwapId, "in_sender")
				s.count("start:swap_in")
				s.deliver(svc, &swap.SwapInAgreementMessage{ProtocolVersion: swap.PEERSWAP_PROTOCOL_VERSION, SwapId: sm.SwapId, Pubkey: c18PeerPubkey(), Premium: 0})
			} else {
				s.count("start-error:" + err.Error())
			}
		case 1: // maker, the peer asks for a swap out
			id := swap.NewSwapId()
			s.deliver(svc, &swap.SwapOutRequestMessage{ProtocolVersion: swap.PEERSWAP_PROTOCOL_VERSION, SwapId: id, Asset: n.wallet.GetAsset(), Network: n.wallet.GetNetwork(),
				Scid: s.scid(), Amount: uint64(100000 + r.Intn(1000)), Pubkey: c18PeerPubkey(), PremiumLimit: 1 << 40})
			s.add(id, "out_receiver")
			s.count("start:swap_out_request")
			if r.Chance(80) {
				n.ln.Paid(id.String(), swap.INVOICE_FEE)
			}
		case 2: // taker, the peer asks for a swap in
			id := swap.NewSwapId()
			amt := uint64(100000 + r.Intn(1000))
			s.deliver(svc, &swap.SwapInRequestMessage{ProtocolVersion: swap.PEERSWAP_PROTOCOL_VERSION, SwapId: id, Asset: n.wallet.GetAsset(), Network: n.wallet.GetNetwork(),
				Scid: s.scid(), Amount: amt, Pubkey: c18PeerPubkey(), PremiumLimit: 1 << 40})
			s.add(id, "in_receiver")
			s.count("start:swap_in_request")
			if r.Chance(80) {
				// the peer announces its opening transaction, mined in the next block
				txid := c18Hex32(0xab, int(atomic.AddInt64(&s.nscid, 1)))
				n.chain.AddTx(txid, []byte{0x00, 0x20}, n.chain.Height()+1)
				cltv := swap.VerifTimelockPolicy(n.chainNm, swap.PEERSWAP_PROTOCOL_VERSION).InvoiceFinalCLTV
				s.deliver(svc, &swap.OpeningTxBroadcastedMessage{SwapId: id, Payreq: fmt.Sprintf("pr|%s|%d|%d", c18Hex32(0x77, 1), amt*1000, cltv), TxId: txid, ScriptOut: 0,
					BlindingKey: c18BlindingKey(n.chainNm)})
			}
		case 3: // taker, we initiate a swap out (stays in the negotiation unless the peer answers)
			sm, err := svc.SwapOut(n.peer, n.chainNm, s.scid(), n.self, uint64(100000+r.Intn(1000)), 100000)
			if err == nil {
				s.add(sm.SwapId, "out_sender")
				s.count("start:swap_out")
			}
		}
		time.Sleep(time.Duration(2+r.Intn(6)) * time.Millisecond)
	}
}

func c18BlindingKey(chain string) string {
	if chain == "lbtc" {
		return strings.Repeat("12", 32)
	}
	return ""
}

// events on existing swaps; two of these run concurrently and pick from the same few recent swaps
func (s *c19Stress) events(r *Rng) {
	for !s.stopped() {
		sw, ok := s.pick(r)
		if !ok {
			time.Sleep(time.Millisecond)
			continue
		}
		svc, to := s.service()
		id := sw.id.String()
		switch r.Intn(9) {
		case 0:
			s.deliver(svc, &swap.CancelMessage{SwapId: sw.id, Message: "cancel"})
			s.count("ev:cancel")
		case 1:
			s.deliver(svc, &swap.CoopCloseMessage{SwapId: sw.id, Message: "coop", Privkey: strings.Repeat("44", 32)})
			s.count("ev:coop")
		case 2:
			s.deliver(svc, &swap.CoopCloseMessage{SwapId: sw.id, Message: "coop", Privkey: "zz"})
			s.count("ev:invalid")
		case 3:
			_ = svc.OnCsvPassed(id)
			s.count("ev:csv")
		case 4:
			s.node().ln.Paid(id, swap.INVOICE_CLAIM)
			s.count("ev:claim_paid")
		case 5:
			to.Fire(id)
			s.count("ev:timeout")
		case 6:
			_ = svc.OnTxConfirmed(id, "rawtx-x", nil)
			s.count("ev:tx_confirmed")
		case 7:
			s.deliver(svc, &swap.SwapInAgreementMessage{ProtocolVersion: swap.PEERSWAP_PROTOCOL_VERSION, SwapId: sw.id, Pubkey: c18PeerPubkey(), Premium: 0})
			s.count("ev:dup_agreement")
		case 8:
			s.node().ln.Paid(id, swap.INVOICE_FEE)
			s.count("ev:fee_paid")
		}
		if r.Chance(30) {
			time.Sleep(time.Duration(r.Intn(300)) * time.Microsecond)
		}
	}
}

// what the RPC server / plugin commands call
func (s *c19Stress) rpc(r *Rng) {
	for !s.stopped() {
		svc, _ := s.service()
		switch r.Intn(7) {
		case 0:
			_, _ = svc.ListActiveSwaps()
		case 1:
			_, _ = svc.HasActiveSwaps()
		case 2:
			if sw, ok := s.pick(r); ok {
				_ = svc.ResendLastMessage(sw.id.String())
				s.count("rpc:resend")
			}
		case 3:
			if sw, ok := s.pick(r); ok {
				_, _ = svc.GetActiveSwap(sw.id.String())
			}
		case 4:
			_, _ = svc.ListSwaps()
		case 5:
			// too small: rejected after the policy checks
			n := s.node()
			_, _ = svc.SwapOut(n.peer, n.chainNm, s.scid(), n.self, 0, 0)
			s.count("rpc:swapout_rejected")
		case 6:
			_, _ = svc.ListSwapsByPeer(s.node().peer)
		}
		s.count("rpc")
		time.Sleep(time.Duration(200+r.Intn(800)) * time.Microsecond)
	}
}

// policy commands (reloadpolicyfile, add/remove suspicious peer, allow/deny swaps) against the real policy.Policy
func (s *c19Stress) policyOps(r *Rng) {
	pk := "02" + strings.Repeat("ab", 32)
	for !s.stopped() {
		p := s.node().pol
		switch r.Intn(8) {
		case 0:
			_ = p.ReloadFile()
			s.count("policy:reload")
		case 1:
			_ = p.AddToSuspiciousPeerList(pk)
		case 2:
			_ = p.RemoveFromSuspiciousPeerList(pk)
		case 3:
			_ = p.Get()
		case 4:
			_ = p.NewSwapsAllowed()
		case 5:
			_ = p.DisableSwaps()
			_ = p.EnableSwaps()
			s.count("policy:toggle")
		case 6:
			_ = p.AddToAllowlist(pk)
			_ = p.RemoveFromAllowlist(pk)
		case 7:
			_ = p.IsPeerAllowed(pk)
			_ = p.GetMinSwapAmountMsat()
		}
		s.count("policy")
		time.Sleep(time.Duration(300+r.Intn(1500)) * time.Microsecond)
	}
}

// blocks
func (s *c19Stress) miner(r *Rng) {
	for !s.stopped() {
		n := s.node()
		h := n.chain.Height() + 1
		n.chain.SetHeight(h)
		if n.rpcW != nil && r.Chance(50) {
			_ = n.rpcW.HandleCsvTx(uint64(h))
		}
		s.count("block")
		time.Sleep(time.Duration(15+r.Intn(30)) * time.Millisecond)
	}
}

// watcher registrations: many CSV / confirmation registrations and removals on the real RPC watcher while the miner
// (above) and this worker walk the watch lists for new blocks
func (s *c19Stress) watcherOps(r *Rng) {
	k := 0
	for !s.stopped() {
		n := s.node()
		if n.rpcW == nil {
			time.Sleep(5 * time.Millisecond)
			continue
		}
		id := fmt.Sprintf("w%d", k%64)
		k++
		switch r.Intn(4) {
		case 0, 1:
			n.rpcW.AddWaitForCsvTx(id, randHex(r, 32), 0, 1, uint32(1000+r.Intn(10000)), nil)
		case 2:
			n.rpcW.TxClaimed([]string{id, fmt.Sprintf("w%d", r.Intn(64))})
		default:
			_ = n.rpcW.HandleCsvTx(uint64(n.chain.Height()))
		}
		s.count("watcher")
		time.Sleep(time.Duration(50+r.Intn(300)) * time.Microsecond)
	}
}

// restart: a new service over the same store recovers the swaps while their messages keep arriving
func (s *c19Stress) restarter(r *Rng, watcherKind string) {
	for !s.stopped() {
		time.Sleep(time.Duration(700+r.Intn(500)) * time.Millisecond)
		if s.stopped() {
			return
		}
		n2, err := c18Rebuild(s.node(), watcherKind)
		if err != nil {
			continue
		}
		s.svcMu.Lock()
		s.svc, s.to = n2.svc, n2.to
		s.n = n2
		s.svcMu.Unlock()
		go func() { _ = n2.svc.RecoverSwaps(); s.count("recover") }()
	}
}

// c18Rebuild: what a restart leaves: same database, chain and policy file; new service, watchers and in-memory state
func c18Rebuild(old *c18Node, watcherKind string) (*c18Node, error) {
	n := &c18Node{dir: old.dir, db: old.db, pol: old.pol, chainNm: old.chainNm, chain: old.chain, wallet: old.wallet, ln: &c18Lightning{},
		msgr: old.msgr, mgr: old.mgr, self: old.self, peer: old.peer, cancel: old.cancel}
	return c18Assemble(n, watcherKind, true)
}

func runC19Stress(args []string) error {
	fs := flag.NewFlagSet("c19stress", flag.ExitOnError)
	out := fs.String("out", "", "output dir")
	seed := fs.Uint64("seed", 1, "seed")
	dur := fs.Duration("dur", 8*time.Second, "duration")
	fs.Parse(args)
	pslog.SetLogger(quietLogger{})
	r := NewRng(*seed)
	var wg sync.WaitGroup
	stresses := []*c19Stress{}
	for i, cfg := range [][2]string{{"rpc", "btc"}, {"electrum", "lbtc"}, {"rpc", "lbtc"}} {
		n, err := c18NewNode(filepath.Join(*out, fmt.Sprintf("stress%d", i)), cfg[0], cfg[1], true, nil)
		if err != nil {
			return err
		}
		s := &c19Stress{n: n, svc: n.svc, to: n.to}
		stresses = append(stresses, s)
		workers := []func(*Rng){s.starter, s.starter, s.events, s.events, s.events, s.rpc, s.policyOps, s.miner, s.watcherOps, s.watcherOps, func(r *Rng) { s.restarter(r, cfg[0]) }}
		for _, w := range workers {
			wg.Add(1)
			rr := NewRng(r.U64())
			go func(w func(*Rng)) { defer wg.Done(); w(rr) }(w)
		}
	}
	time.Sleep(*dur)
	for _, s := range stresses {
		atomic.StoreInt32(&s.stop, 1)
	}
	done := make(chan struct{})
	go func() { wg.Wait(); close(done) }()
	hung := false
	select {
	case <-done:
	case <-time.After(20 * time.Second):
		hung = true
		if *out != "" {
			if f, err := os.Create(filepath.Join(*out, "hung_goroutines.txt")); err == nil {
				pprof.Lookup("goroutine").WriteTo(f, 1)
				f.Close()
			}
		}
	}
	counts := map[string]int64{}
	for _, s := range stresses {
		s.counts.Range(func(k, v interface{}) bool {
			counts[k.(string)] += atomic.LoadInt64(v.(*int64))
			return true
		})
	}
	js, _ := json.MarshalIndent(map[string]interface{}{"counts": counts, "hung": hung, "seed": *seed, "duration_s": dur.Seconds()}, "", " ")
	if *out != "" {
		os.WriteFile(filepath.Join(*out, "stress_summary.json"), js, 0o644)
	}
	fmt.Println(string(js))
	return nil
}

// ---------------------------------------------------------------- driver: run the race binary, parse, map to the skeleton

type c19Access struct {
	Kind   string   `json:"kind"` // read | write
	Fn     string   `json:"fn"`   // first frame inside the repository, in skeleton naming
	File   string   `json:"file"`
	Line   int      `json:"line"`
	Frames []string `json:"frames"`
}

type c19Race struct {
	A, B   c19Access
	Fields []string `json:"fields"`
	Count  int      `json:"count"`
}

var c19AccessRe = regexp.MustCompile(`^(Previous )?(Read|Write|read|write|Atomic read|Atomic write|atomic read|atomic write) at 0x[0-9a-f]+ by `)
var c19FrameFileRe = regexp.MustCompile(`^\s+(\S+\.go):(\d+)`)

// c19SkelName converts a runtime function name into the extractor's naming
func c19SkelName(fn string) string {
	fn = strings.TrimSuffix(fn, "()")
	fn = strings.TrimPrefix(fn, "github.com/elementsproject/peerswap/")
	fn = strings.NewReplacer("(*", "", ")", "").Replace(fn)
	// method value wrappers: pkg.T.m-fm.T.m.func1 -> pkg.T.m.func1
	if i := strings.Index(fn, "-fm."); i >= 0 {
		if j := strings.Index(fn, "."); j >= 0 && j < i {
			fn = fn[:j+1] + fn[i+4:]
		}
	}
	// closures: X.func1 -> X$1 ; X.func1.2 -> X$1 (nested closures are attributed to the outer one)
	if i := strings.Index(fn, ".func"); i >= 0 {
		rest := fn[i+5:]
		num := rest
		if j := strings.IndexAny(rest, "."); j >= 0 {
			num = rest[:j]
		}
		if _, err := strconv.Atoi(num); err == nil {
			fn = fn[:i] + "$" + num
		}
	}
	if i := strings.Index(fn, ".gowrap"); i >= 0 {
		fn = fn[:i]
	}
	return fn
}

func c19ParseReports(text, repo string) []c19Race {
	var out []c19Race
	for _, blk := range strings.Split(text, "==================") {
		if !strings.Contains(blk, "DATA RACE") {
			continue
		}
		lines := strings.Split(blk, "\n")
		var accs []c19Access
		for i := 0; i < len(lines); i++ {
			m := c19AccessRe.FindStringSubmatch(lines[i])
			if m == nil {
				continue
			}
			acc := c19Access{Kind: "read"}
			if strings.Contains(strings.ToLower(m[2]), "write") {
				acc.Kind = "write"
			}
			// frames: function line followed by "      file:line +0x.."
			j := i + 1
			for j+1 < len(lines) && strings.TrimSpace(lines[j]) != "" {
				fn := strings.TrimSpace(lines[j])
				fm := c19FrameFileRe.FindStringSubmatch(lines[j+1])
				if fm == nil {
					break
				}
				acc.Frames = append(acc.Frames, fn)
				if acc.Fn == "" && strings.HasPrefix(fm[1], repo+"/") && !strings.Contains(fm[1], "/verif_hooks") {
					acc.Fn = c19SkelName(fn)
					acc.File = strings.TrimPrefix(fm[1], repo+"/")
					acc.Line, _ = strconv.Atoi(fm[2])
				}
				j += 2
			}
			accs = append(accs, acc)
			i = j
		}
		if len(accs) >= 2 {
			out = append(out, c19Race{A: accs[0], B: accs[1]})
		}
	}
	return out
}

func runC19(args []string) error {
	fs := flag.NewFlagSet("c19", flag.ExitOnError)
	out := fs.String("out", "", "output dir")
	seed := fs.Uint64("seed", 1, "seed")
	dur := fs.Duration("dur", 8*time.Second, "stress duration")
	bin := fs.String("bin", "", "race-detector build of psh")
	fs.Parse(args)
	repo, err := peerswapDir()
	if err != nil {
		return err
	}
	if err := os.MkdirAll(*out, 0o755); err != nil {
		return err
	}
	old, _ := filepath.Glob(filepath.Join(*out, "race.*"))
	for _, f := range old {
		os.Remove(f)
	}
	os.RemoveAll(filepath.Join(*out, "run"))
	cmd := exec.Command(*bin, "c19stress", "-out", filepath.Join(*out, "run"), "-seed", fmt.Sprint(*seed), "-dur", dur.String())
	cmd.Env = append(os.Environ(), "GORACE=log_path="+filepath.Join(*out, "race")+" halt_on_error=0 history_size=4 exitcode=0")
	stdout, err := cmd.Output()
	if err != nil {
		return fmt.Errorf("race binary failed: %v", err)
	}
	var summ struct {
		Counts map[string]int64 `json:"counts"`
		Hung   bool             `json:"hung"`
	}
	if err := json.Unmarshal(stdout, &summ); err != nil {
		return fmt.Errorf("stress summary: %v: %s", err, string(stdout))
	}
	var text strings.Builder
	logs, _ := filepath.Glob(filepath.Join(*out, "race.*"))
	for _, f := range logs {
		b, _ := os.ReadFile(f)
		text.Write(b)
	}
	races := c19ParseReports(text.String(), repo)
	// site table of the skeleton: (function, line) -> fields
	_, js, err := c18SkelText()
	if err != nil {
		return err
	}
	funcs := js["funcs"].(map[string]*c18Func)
	fieldsAt := func(a c19Access) map[string]bool {
		m := map[string]bool{}
		f, ok := funcs[a.Fn]
		if !ok {
			return m
		}
		for _, op := range f.Ops {
			if (op.K == "Rd" || op.K == "Wr") && op.Line == a.Line && op.File == a.File {
				if a.Kind == "write" && op.K != "Wr" {
					continue
				}
				m[op.A] = true
			}
		}
		return m
	}
	type key struct{ fa, fb, fields string }
	agg := map[key]*c19Race{}
	for _, rc := range races {
		if rc.A.Fn == "" || rc.B.Fn == "" {
			continue // one side is outside the repository (harness, runtime): not about peerswap's own synchronisation
		}
		fa, fb := fieldsAt(rc.A), fieldsAt(rc.B)
		common := []string{}
		for f := range fa {
			if fb[f] {
				common = append(common, f)
			}
		}
		if len(common) == 0 {
			for f := range fa {
				common = append(common, f)
			}
			if len(fa) == 0 {
				for f := range fb {
					common = append(common, f)
				}
			}
		}
		sort.Strings(common)
		a, b := rc.A, rc.B
		if a.Fn > b.Fn {
			a, b = b, a
		}
		k := key{a.Fn, b.Fn, strings.Join(common, ",")}
		if agg[k] == nil {
			agg[k] = &c19Race{A: a, B: b, Fields: common}
		}
		agg[k].Count++
	}
	cf := NewCaseFile("From PS Require Import Model.C19Corr.", "c19_case", "c19_check", "c19_monitor")
	keys := []key{}
	for k := range agg {
		keys = append(keys, k)
	}
	sort.Slice(keys, func(i, j int) bool {
		return keys[i].fa+keys[i].fb+keys[i].fields < keys[j].fa+keys[j].fb+keys[j].fields
	})
	for _, k := range keys {
		rc := agg[k]
		term := fmt.Sprintf("C19Race %s %s %s %s %s", CoqStr(rc.A.Fn), CoqStr(rc.B.Fn), CoqStrList(rc.Fields), CoqBool(rc.A.Kind == "write"), CoqBool(rc.B.Kind == "write"))
		cf.Add(term, k.fa+"|"+k.fb+"|"+k.fields, true, "race-report", map[string]interface{}{"kind": "race", "fn_a": rc.A.Fn, "fn_b": rc.B.Fn, "fields": rc.Fields,
			"a": rc.A, "b": rc.B, "reports": rc.Count, "replay": fmt.Sprintf("GORACE=halt_on_error=0 psh-race c19stress -seed %d -dur %s", *seed, dur.String())})
	}
	// one case per exercised entry-point family: it ran, concurrently with the others
	fams := []string{}
	for k := range summ.Counts {
		fams = append(fams, k)
	}
	sort.Strings(fams)
	for _, k := range fams {
		cf.Add(fmt.Sprintf("C19Ran %s %d %s", CoqStr(k), summ.Counts[k], CoqBool(summ.Hung)), "ran:"+k, summ.Counts[k] > 0, "entry-point", map[string]interface{}{"kind": "ran", "entry": k, "calls": summ.Counts[k], "hung": summ.Hung})
	}
	return cf.Write(*out, 500, map[string]interface{}{"race_reports": len(races), "distinct_races": len(agg), "stress_counts": summ.Counts, "hung": summ.Hung})
}

func init() {
	register("c19stress", "race stress workload (run it from the -race build)", runC19Stress)
	register("c19", "run the race-detector stress binary and map its reports to skeleton sites", runC19)
}
