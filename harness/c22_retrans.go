package main

// C22: retransmissions stop when the swap moves on.
//
// psh c22 -fam mgr : the REAL messages.Manager and messages.RedundantMessenger with a counting
//                    messenger and a short tick, driven by generated Add/Remove/Wait sequences
//                    (used exactly the way SendMessageWithRetryAction / RemoveSender use them).
// psh c22 -fam e2e : the REAL SwapService with the REAL messages.Manager (retry interval 1 s, the
//                    fast_test build tag): a maker announces the opening transaction, waits, the swap
//                    moves on in one of five ways; copies of opening_tx_broadcasted are counted
//                    before and after.

import (
	"flag"
	"fmt"
	"os"
	"path/filepath"
	"strings"
	"sync"
	"sync/atomic"
	"time"

	"github.com/btcsuite/btcd/btcec/v2"
	"github.com/elementsproject/peerswap/messages"
	"github.com/elementsproject/peerswap/premium"
	"github.com/elementsproject/peerswap/swap"
	"go.etcd.io/bbolt"
)

const c22Tick = 250 * time.Millisecond

// offline: the peer goes away after the first copy went out - every later copy is an attempt that fails (it is still
// counted: an attempt after the swap moved on is a retransmission that did not stop).
type c22Counter struct {
	n       int64
	offline bool
}

func (c *c22Counter) SendMessage(peerId string, message []byte, messageType int) error {
	if atomic.AddInt64(&c.n, 1) > 1 && c.offline {
		return fmt.Errorf("peer %s is not connected", peerId)
	}
	return nil
}
func (c *c22Counter) get() int64 { return atomic.LoadInt64(&c.n) }

type c22Op struct {
	Kind string // add, remove, wait
	Id   int
	N    int
}

func (o c22Op) coq() string {
	switch o.Kind {
	case "add":
		return fmt.Sprintf("MAdd %d%%nat", o.Id)
	case "remove":
		return fmt.Sprintf("MRemove %d%%nat", o.Id)
	}
	return fmt.Sprintf("MWait %d%%nat", o.N)
}

type c22MgrRes struct {
	ops       []c22Op
	addOk     []bool
	afterStop []int64
	liveEnd   []int
}

func c22GenOps(r *Rng, directed int) []c22Op {
	switch directed {
	case 0: // the plain life cycle
		return []c22Op{{"add", 0, 0}, {"wait", 0, 2}, {"remove", 0, 0}}
	case 1: // a second sender for the same swap is refused
		return []c22Op{{"add", 0, 0}, {"add", 0, 0}, {"wait", 0, 1}, {"remove", 0, 0}, {"add", 0, 0}}
	case 2: // removing twice / removing what is not there
		return []c22Op{{"remove", 1, 0}, {"add", 1, 0}, {"remove", 1, 0}, {"remove", 1, 0}}
	case 3: // two swaps side by side
		return []c22Op{{"add", 0, 0}, {"add", 1, 0}, {"wait", 0, 1}, {"remove", 0, 0}, {"wait", 0, 2}, {"remove", 1, 0}}
	}
	n := 3 + r.Intn(5)
	ops := []c22Op{}
	for i := 0; i < n; i++ {
		switch r.Intn(5) {
		case 0, 1:
			ops = append(ops, c22Op{"add", r.Intn(3), 0})
		case 2, 3:
			ops = append(ops, c22Op{"remove", r.Intn(3), 0})
		default:
			ops = append(ops, c22Op{"wait", 0, 1 + r.Intn(2)})
		}
	}
	return ops
}

func c22RunMgr(ops []c22Op, offline bool) c22MgrRes {
	mgr := messages.NewManager()
	res := c22MgrRes{ops: ops}
	live := map[int]*c22Counter{}
	type stopped struct {
		c  *c22Counter
		at int64
	}
	stops := []stopped{}
	for _, o := range ops {
		id := fmt.Sprintf("swap%d", o.Id)
		switch o.Kind {
		case "add":
			c := &c22Counter{offline: offline}
			rm := messages.NewRedundantMessenger(c, c22Tick)
			err := mgr.AddSender(id, rm)
			res.addOk = append(res.addOk, err == nil)
			if err == nil {
				rm.SendMessage("peer", []byte("otb"), int(messages.MESSAGETYPE_OPENINGTXBROADCASTED))
				live[o.Id] = c
			}
		case "remove":
			mgr.RemoveSender(id)
			if c, ok := live[o.Id]; ok {
				stops = append(stops, stopped{c, c.get()})
				delete(live, o.Id)
			}
		case "wait":
			time.Sleep(time.Duration(o.N) * c22Tick)
		}
	}
	time.Sleep(4 * c22Tick)
	for _, s := range stops {
		res.afterStop = append(res.afterStop, s.c.get()-s.at)
	}
	// which ids still have a sender: a further AddSender is refused exactly for those
	for i := 0; i < 3; i++ {
		id := fmt.Sprintf("swap%d", i)
		probe := messages.NewRedundantMessenger(&c22Counter{}, time.Hour)
		if err := mgr.AddSender(id, probe); err != nil {
			res.liveEnd = append(res.liveEnd, i)
		}
		mgr.RemoveSender(id)
	}
	return res
}

// ---- end to end ----

type c22E2E struct {
	role, chain, move string
	before, after     int64
	other             int64
	ok                bool
	note              string
}

func c22NewNode(env *Env, db *bbolt.DB) (*Node, error) {
	inner, err := swap.NewBboltStore(db)
	if err != nil {
		return nil, err
	}
	ps, err := premium.NewSetting(db)
	if err != nil {
		return nil, err
	}
	n := &Node{env: env, db: db, ps: ps}
	n.store = &fakeStore{env: env, inner: inner}
	n.msgr = &fakeMessenger{env: env}
	n.ln = &fakeLightning{env: env}
	n.btc = &fakeChain{env: env, chain: "btc"}
	n.lbtc = &fakeChain{env: env, chain: "lbtc"}
	// the REAL manager: SendMessageWithRetryAction hands it a real RedundantMessenger (1 s with fast_test)
	services := swap.NewSwapServices(n.store, &fakeReqStore{env}, n.ln, n.msgr, messages.NewManager(), &fakePolicy{env},
		env.BitcoinEnabled, n.btc, n.btc, n.btc, env.LiquidEnabled, n.lbtc, n.lbtc, n.lbtc, ps)
	n.svc = swap.NewSwapService(services)
	to, err := n.svc.VerifStart()
	if err != nil {
		return nil, err
	}
	n.to = to
	return n, nil
}

func (n *Node) c22Count() (otb, other int64) {
	n.env.mu.Lock()
	defer n.env.mu.Unlock()
	for _, m := range n.msgr.Sent {
		if messages.MessageType(m.Type) == messages.MESSAGETYPE_OPENINGTXBROADCASTED {
			otb++
		} else {
			other++
		}
	}
	return
}

func c22RunE2E(seed uint64, role, chain, move, dbpath string) (res c22E2E) {
	res = c22E2E{role: role, chain: chain, move: move}
	r := NewRng(seed)
	env := newEnv(r)
	db, err := bbolt.Open(dbpath, 0o600, &bbolt.Options{Timeout: 2 * time.Second, NoSync: true})
	if err != nil {
		res.note = err.Error()
		return
	}
	defer db.Close()
	node, err := c22NewNode(env, db)
	if err != nil {
		res.note = err.Error()
		return
	}
	pk, _ := btcec.NewPrivateKey()
	sc := &Scen{r: r, env: env, node: node, peerKey: pk, role: role, chain: chain, version: 7, clean: true,
		peer: "02" + randHex(r, 32), self: "03" + randHex(r, 32),
		scid:   fmt.Sprintf("%dx%dx%d", r.Range(100, 900000), r.Range(1, 3000), r.Range(0, 5)),
		amount: uint64(r.Range(100000, 5000000))}
	if role == "out_receiver" {
		sc.stepNamed("request")
		sc.stepNamed("paid_fee")
	} else {
		sc.stepNamed("start")
		if sc.id != nil {
			sc.stepNamed("in_agreement")
		}
	}
	m := sc.current()
	if m == nil || !strings.Contains(string(m.Current), "Await") {
		res.note = "did not reach the wait"
		return
	}
	// wait until the retransmitter has demonstrably been running (two copies); on a loaded machine the 1 s ticker
	// can take much longer than 2.6 s to deliver them
	time.Sleep(2600 * time.Millisecond)
	for k := 0; k < 300; k++ {
		if b, _ := node.c22Count(); b >= 2 {
			break
		}
		time.Sleep(100 * time.Millisecond)
	}
	b0, o0 := node.c22Count()
	res.before = b0
	switch move {
	case "paid":
		sc.stepNamed("paid_claim")
	case "coop":
		sc.stepNamed("coop")
	case "cancel":
		sc.stepNamed("cancel")
	case "csv":
		sc.stepNamed("csv")
	case "invalid":
		// a coop_close whose key is not 32 bytes of hex: Event_OnInvalid_Message
		msg := &swap.CoopCloseMessage{SwapId: sc.id, Message: "coop", Privkey: "zz"}
		sc.stepPeerMsg("coop", "Event_OnCoopCloseReceived", msg, messages.MESSAGETYPE_COOPCLOSE, "(MCoop "+coqCoop(msg)+")")
	}
	b1, o1 := node.c22Count()
	// The retransmitter is stopped synchronously inside the moving step, so every copy sent after the step has
	// returned was sent after the swap moved on (the property allows one copy that was already due). Copies sent
	// WHILE the step ran are not counted: on a loaded machine the step can take longer than the 1 s interval and
	// copies sent before the stop cannot be told apart from later ones.
	time.Sleep(2600 * time.Millisecond)
	b2, o2 := node.c22Count()
	res.after = b2 - b1
	// messages of other kinds sent while nothing was being delivered (retransmitted non-otb messages)
	res.other = (o2 - o1)
	_ = o0
	if cur := sc.current(); cur != nil && strings.Contains(string(cur.Current), "AwaitClaim") {
		res.note = "swap did not move"
		return
	}
	res.ok = true
	return
}

func init() {
	register("c22", "real messages.Manager / RedundantMessenger; end-to-end retransmission counts", func(args []string) error {
		fs := flag.NewFlagSet("c22", flag.ExitOnError)
		out := fs.String("out", "/verif/work/c22", "output dir")
		seed := fs.Uint64("seed", 1, "seed")
		n := fs.Int("n", 16, "cases")
		fam := fs.String("fam", "mgr", "mgr | e2e")
		fs.Parse(args)
		r := NewRng(*seed)
		if *fam == "mgr" {
			cf := NewCaseFile("From PS Require Import Model.C22Corr.", "mgr_case", "mgr_check", "mgr_monitor")
			// every operation sequence runs twice: peer reachable / peer gone after the first copy
			results := make([]c22MgrRes, 2**n)
			var wg sync.WaitGroup
			for i := 0; i < *n; i++ {
				ops := c22GenOps(r, i)
				for off := 0; off < 2; off++ {
					wg.Add(1)
					go func(i int, ops []c22Op, offline bool) {
						defer wg.Done()
						results[i] = c22RunMgr(ops, offline)
					}(2*i+off, ops, off == 1)
				}
			}
			wg.Wait()
			for i, res := range results {
				ops := []string{}
				kinds := []string{}
				for _, o := range res.ops {
					ops = append(ops, o.coq())
					kinds = append(kinds, o.Kind)
				}
				oks := []string{}
				for _, b := range res.addOk {
					oks = append(oks, CoqBool(b))
				}
				as := []string{}
				for _, a := range res.afterStop {
					as = append(as, CoqZ(a))
				}
				le := []string{}
				for _, l := range res.liveEnd {
					le = append(le, fmt.Sprintf("%d%%nat", l))
				}
				term := fmt.Sprintf("(%s, mkMgrObs %s %s %s)", CoqList(ops), CoqList(oks), CoqList(as), CoqList(le))
				peer := "online"
				if i%2 == 1 {
					peer = "offline-after-first-copy"
				}
				cf.Add(term, strings.Join(ops, ",")+"|"+peer, len(res.ops) > 1, fmt.Sprintf("ops=%d/%s", len(res.ops), peer),
					map[string]interface{}{"fam": "mgr", "case": i / 2, "peer": peer, "ops": kinds, "add_ok": res.addOk, "after_stop": res.afterStop, "live_end": res.liveEnd})
			}
			return cf.Write(*out, 64, map[string]interface{}{"seed": *seed, "tick_ms": c22Tick.Milliseconds()})
		}
		// e2e
		os.Setenv("PAYMENT_RETRY_TIME", "2")
		cf := NewCaseFile("From PS Require Import Model.C22Corr.", "e2e_obs", "e2e_check", "e2e_monitor")
		dbdir := filepath.Join(*out, "db")
		os.RemoveAll(dbdir)
		os.MkdirAll(dbdir, 0o755)
		moves := []string{"paid", "coop", "cancel", "csv", "invalid"}
		type job struct{ role, chain, move string }
		jobs := []job{}
		for i := 0; i < *n; i++ {
			jobs = append(jobs, job{[]string{"out_receiver", "in_sender"}[i%2], []string{"btc", "lbtc"}[(i/2)%2], moves[(i/2)%len(moves)]})
		}
		results := make([]c22E2E, len(jobs))
		var wg sync.WaitGroup
		for i, j := range jobs {
			wg.Add(1)
			s := r.U64()
			go func(i int, j job, s uint64) {
				defer wg.Done()
				results[i] = c22RunE2E(s, j.role, j.chain, j.move, filepath.Join(dbdir, fmt.Sprintf("e%d.db", i)))
			}(i, j, s)
		}
		wg.Wait()
		os.RemoveAll(dbdir)
		skipped := 0
		for i, res := range results {
			if !res.ok {
				skipped++
				fmt.Fprintf(os.Stderr, "c22 e2e case %d (%s/%s/%s) skipped: %s\n", i, res.role, res.chain, res.move, res.note)
				continue
			}
			term := fmt.Sprintf("mkE2E %s %s %s %s %s", CoqStr(res.role), CoqStr(res.move), CoqZ(res.before), CoqZ(res.after), CoqZ(res.other))
			cf.Add(term, fmt.Sprintf("%s|%s|%s", res.role, res.chain, res.move), true, res.role+"/"+res.move,
				map[string]interface{}{"fam": "e2e", "role": res.role, "chain": res.chain, "move": res.move, "before": res.before, "after": res.after, "other": res.other})
		}
		if skipped > len(results)/2 {
			return fmt.Errorf("c22 e2e: %d of %d scenarios did not run", skipped, len(results))
		}
		return cf.Write(*out, 64, map[string]interface{}{"seed": *seed, "skipped": skipped})
	})
}
