package main

// C27 — premiums follow the configured rate and match what peer-sync advertises.
// Runs the REAL premium.Setting on a real bbolt file and the real
// peersync.PeerSync (localCapabilityForPeer + the outgoing poll payload, with a
// fake Lightning node that only records what is sent).

import (
	"context"
	"encoding/json"
	"flag"
	"fmt"
	"math/big"
	"os"
	"path/filepath"
	"sort"
	"strings"

	"github.com/elementsproject/peerswap/messages"
	"github.com/elementsproject/peerswap/peersync"
	"github.com/elementsproject/peerswap/premium"
	"go.etcd.io/bbolt"
)

func init() {
	registerDump("ConstsPremium.v", dumpPremium)
	register("c27", "premium rate store / Compute / peer-sync advertisement correspondence cases", runC27)
}

func dumpPremium() (string, error) {
	var b strings.Builder
	b.WriteString("From Coq Require Import ZArith String List.\nImport ListNotations.\nOpen Scope Z_scope.\n")
	fmt.Fprintf(&b, "Definition premium_rate_parts : Z := %d.\n", premium.VerifPremiumRateParts)
	fmt.Fprintf(&b, "Definition premium_default_peer_id : string := %s.\n", CoqStr(premium.VerifDefaultPeerID))
	fmt.Fprintf(&b, "Definition premium_asset_btc : Z := %d.\n", int64(premium.BTC))
	fmt.Fprintf(&b, "Definition premium_asset_lbtc : Z := %d.\n", int64(premium.LBTC))
	fmt.Fprintf(&b, "Definition premium_op_swap_in : Z := %d.\n", int64(premium.SwapIn))
	fmt.Fprintf(&b, "Definition premium_op_swap_out : Z := %d.\n", int64(premium.SwapOut))
	type row struct{ a, o, v int64 }
	rows := []row{}
	for a, m := range premium.DefaultPremiumRate {
		for o, v := range m {
			rows = append(rows, row{int64(a), int64(o), v})
		}
	}
	sort.Slice(rows, func(i, j int) bool {
		if rows[i].a != rows[j].a {
			return rows[i].a < rows[j].a
		}
		return rows[i].o < rows[j].o
	})
	xs := []string{}
	for _, r := range rows {
		xs = append(xs, fmt.Sprintf("((%s, %s), %s)", CoqZ(r.a), CoqZ(r.o), CoqZ(r.v)))
	}
	fmt.Fprintf(&b, "(* premium.DefaultPremiumRate, flattened and sorted by (asset, operation) *)\n")
	fmt.Fprintf(&b, "Definition premium_default_table : list ((Z * Z) * Z) := %s.\n", CoqList(xs))
	fmt.Fprintf(&b, "Definition bbolt_max_key_size : Z := %d.\n", bbolt.MaxKeySize)
	fmt.Fprintf(&b, "Definition peersync_max_premium_rate_ppm : Z := %d.\n", int64(peersync.MaxPremiumRatePPM))
	fmt.Fprintf(&b, "Definition peersync_min_premium_rate_ppm : Z := %d.\n", int64(peersync.MinPremiumRatePPM))
	return b.String(), nil
}

// ---------- fake Lightning node: records outgoing custom messages only

type c27FakeLN struct {
	lastType    messages.MessageType
	lastPayload []byte
	sent        int
}

func (f *c27FakeLN) SendCustomMessage(_ context.Context, _ peersync.PeerID, t messages.MessageType, payload []byte) error {
	f.lastType, f.lastPayload = t, append([]byte(nil), payload...)
	f.sent++
	return nil
}
func (f *c27FakeLN) SubscribeCustomMessages(context.Context) (<-chan peersync.CustomMessage, error) {
	return make(chan peersync.CustomMessage), nil
}
func (f *c27FakeLN) Stop() error                                          { return nil }
func (f *c27FakeLN) ListPeers(context.Context) ([]peersync.PeerID, error) { return nil, nil }

// ---------- the system under test: one bbolt file, reopenable

type c27Env struct {
	path string
	db   *bbolt.DB
	ps   *premium.Setting
	ln   *c27FakeLN
	sync *peersync.PeerSync
}

func (e *c27Env) open() error {
	db, err := bbolt.Open(e.path, 0o600, &bbolt.Options{NoSync: true})
	if err != nil {
		return err
	}
	ps, err := premium.NewSetting(db)
	if err != nil {
		return err
	}
	self, _ := peersync.NewPeerID("02aaaaaaaaaaaaaaaaaaaaaaaaaaaaaaaaaaaaaaaaaaaaaaaaaaaaaaaaaaaaaaaa")
	e.db, e.ps, e.ln = db, ps, &c27FakeLN{}
	e.sync = peersync.NewPeerSync(self, nil, e.ln, nil, nil, ps)
	return nil
}

func (e *c27Env) close() {
	if e.db != nil {
		e.db.Close()
		e.db = nil
	}
}

// ---------- ops

type c27Op struct {
	Op     string `json:"op"`
	Peer   string `json:"peer,omitempty"`
	Asset  int64  `json:"asset,omitempty"`
	Oper   int64  `json:"operation,omitempty"`
	Rate   int64  `json:"rate,omitempty"`
	Amount uint64 `json:"amount,omitempty"`
	// observations
	Err     bool       `json:"err,omitempty"`
	Val     *int64     `json:"val,omitempty"`
	Cap     []int64    `json:"cap,omitempty"`
	Payload []int64    `json:"payload,omitempty"`
	Dump    [][]string `json:"dump,omitempty"`
	term    string
}

func mkRate(a, o, r int64) (*premium.PremiumRate, bool) {
	if a == 0 && o == 0 && r == 0 {
		// the zero value is the only rate with an unspecified asset that a caller can build
		return &premium.PremiumRate{}, true
	}
	pr, err := premium.NewPremiumRate(premium.AssetType(a), premium.OperationType(o), premium.NewPPM(r))
	return pr, err == nil
}

// Long peer ids are emitted once per cases file as Coq constants (c27_pN) and referred to
// by name: elaborating thousands of 66-character string literals dominates the run otherwise.
// Very long single-character ids (key size cases) are built inside Coq.
var c27PeerNames = map[string]string{}
var c27PeerOrder = []string{}

func c27Peer(p string) string {
	if len(p) > 1000 && strings.Count(p, p[:1]) == len(p) {
		return fmt.Sprintf("(rep_str %s %s)", CoqStr(p[:1]), CoqN(uint64(len(p))))
	}
	if len(p) < 8 {
		return CoqStr(p)
	}
	if n, ok := c27PeerNames[p]; ok {
		return n
	}
	n := fmt.Sprintf("c27_p%d", len(c27PeerOrder))
	c27PeerNames[p] = n
	c27PeerOrder = append(c27PeerOrder, p)
	return n
}

// c27Key renders an observed bucket key; a key that starts with a named peer id is written
// as (c27_pN ++ "rest"), which evaluates to exactly the observed bytes.
func c27Key(k string) string {
	best := ""
	for _, p := range c27PeerOrder {
		if len(p) > len(best) && strings.HasPrefix(k, p) {
			best = p
		}
	}
	if best == "" {
		return CoqStr(k)
	}
	return fmt.Sprintf("(%s ++ %s)%%string", c27PeerNames[best], CoqStr(k[len(best):]))
}

func c27PeerDefs() string {
	var b strings.Builder
	for _, p := range c27PeerOrder {
		fmt.Fprintf(&b, "Definition %s : String.string := %s.\n", c27PeerNames[p], CoqStr(p))
	}
	return b.String()
}

func optZ(ok bool, v int64) string { return CoqOpt(ok, CoqZ(v)) }

func z4(v []int64) string { return CoqTuple(CoqZ(v[0]), CoqZ(v[1]), CoqZ(v[2]), CoqZ(v[3])) }

var c27Pairs = [][2]int64{{int64(premium.BTC), int64(premium.SwapIn)}, {int64(premium.BTC), int64(premium.SwapOut)},
	{int64(premium.LBTC), int64(premium.SwapIn)}, {int64(premium.LBTC), int64(premium.SwapOut)}}

// exec runs one op on the real code and fills in the observation and the Coq term.
func (e *c27Env) exec(op *c27Op) error {
	ctx := context.Background()
	a, o := premium.AssetType(op.Asset), premium.OperationType(op.Oper)
	switch op.Op {
	case "set":
		pr, ok := mkRate(op.Asset, op.Oper, op.Rate)
		if !ok {
			return fmt.Errorf("generator produced an unconstructible rate %d/%d", op.Asset, op.Oper)
		}
		op.Err = e.ps.SetRate(ctx, op.Peer, pr) != nil
		op.term = fmt.Sprintf("OSet %s %s %s %s %s", c27Peer(op.Peer), CoqZ(op.Asset), CoqZ(op.Oper), CoqZ(op.Rate), CoqBool(op.Err))
	case "setdefault":
		pr, ok := mkRate(op.Asset, op.Oper, op.Rate)
		if !ok {
			return fmt.Errorf("generator produced an unconstructible rate %d/%d", op.Asset, op.Oper)
		}
		op.Err = e.ps.SetDefaultRate(ctx, pr) != nil
		op.term = fmt.Sprintf("OSetDefault %s %s %s %s", CoqZ(op.Asset), CoqZ(op.Oper), CoqZ(op.Rate), CoqBool(op.Err))
	case "delete":
		op.Err = e.ps.DeleteRate(ctx, op.Peer, a, o) != nil
		op.term = fmt.Sprintf("ODelete %s %s %s %s", c27Peer(op.Peer), CoqZ(op.Asset), CoqZ(op.Oper), CoqBool(op.Err))
	case "get":
		r, err := e.ps.GetRate(op.Peer, a, o)
		var v int64
		if err == nil {
			v = r.PremiumRatePPM().Value()
			op.Val = &v
			if r.Asset() != a || r.Operation() != o {
				return fmt.Errorf("GetRate returned a rate for another asset/operation")
			}
		}
		op.Err = err != nil
		op.term = fmt.Sprintf("OGet %s %s %s %s", c27Peer(op.Peer), CoqZ(op.Asset), CoqZ(op.Oper), optZ(err == nil, v))
	case "getdefault":
		r, err := e.ps.GetDefaultRate(a, o)
		var v int64
		if err == nil {
			v = r.PremiumRatePPM().Value()
			op.Val = &v
		}
		op.Err = err != nil
		op.term = fmt.Sprintf("OGetDefault %s %s %s", CoqZ(op.Asset), CoqZ(op.Oper), optZ(err == nil, v))
	case "compute":
		v, err := e.ps.Compute(op.Peer, a, o, op.Amount)
		if err == nil {
			op.Val = &v
		}
		op.Err = err != nil
		op.term = fmt.Sprintf("OCompute %s %s %s %s %s", c27Peer(op.Peer), CoqZ(op.Asset), CoqZ(op.Oper), CoqZu(op.Amount), optZ(err == nil, v))
	case "ppm":
		v := premium.NewPPM(op.Rate).Compute(op.Amount)
		op.Val = &v
		op.term = fmt.Sprintf("OPPM %s %s %s", CoqZ(op.Rate), CoqZu(op.Amount), CoqZ(v))
	case "new":
		_, err := premium.NewPremiumRate(a, o, premium.NewPPM(op.Rate))
		op.Err = err != nil
		op.term = fmt.Sprintf("ONew %s %s %s", CoqZ(op.Asset), CoqZ(op.Oper), CoqBool(op.Err))
	case "advert":
		pid, err := peersync.NewPeerID(op.Peer)
		if err != nil {
			return fmt.Errorf("generator produced an invalid peer id for advert")
		}
		cp := e.sync.VerifLocalCapabilityForPeer(pid)
		op.Cap = nil
		for _, p := range c27Pairs {
			op.Cap = append(op.Cap, cp.PremiumRateValue(premium.AssetType(p[0]), premium.OperationType(p[1])))
		}
		before := e.ln.sent
		if err := e.sync.RequestPoll(ctx, pid); err != nil {
			return fmt.Errorf("RequestPoll: %v", err)
		}
		if e.ln.sent != before+1 {
			return fmt.Errorf("RequestPoll sent %d messages", e.ln.sent-before)
		}
		var dto peersync.PollMessageDTO
		if err := json.Unmarshal(e.ln.lastPayload, &dto); err != nil {
			return fmt.Errorf("poll payload does not decode: %v", err)
		}
		op.Payload = []int64{dto.BTCSwapInPremiumRatePPM, dto.BTCSwapOutPremiumRatePPM, dto.LBTCSwapInPremiumRatePPM, dto.LBTCSwapOutPremiumRatePPM}
		op.term = fmt.Sprintf("OAdvert %s %s %s", c27Peer(op.Peer), z4(op.Cap), z4(op.Payload))
	case "guard":
		pid, err := peersync.NewPeerID(op.Peer)
		if err != nil {
			return fmt.Errorf("generator produced an invalid peer id for guard")
		}
		v := peersync.NewPeerGuard(nil, e.ps).PremiumRate(pid, a, o).Value()
		op.Val = &v
		op.term = fmt.Sprintf("OGuard %s %s %s %s", c27Peer(op.Peer), CoqZ(op.Asset), CoqZ(op.Oper), CoqZ(v))
	case "reopen":
		e.close()
		if err := e.open(); err != nil {
			return err
		}
		op.term = "OReopen"
	case "dump":
		op.Dump = [][]string{}
		xs := []string{}
		err := e.db.View(func(tx *bbolt.Tx) error {
			bk := tx.Bucket([]byte(premium.VerifBucketName))
			if bk == nil {
				return fmt.Errorf("bucket missing")
			}
			return bk.ForEach(func(k, v []byte) error {
				op.Dump = append(op.Dump, []string{string(k), string(v)})
				xs = append(xs, CoqPair(c27Key(string(k)), CoqStr(string(v))))
				return nil
			})
		})
		if err != nil {
			return err
		}
		op.term = "ODump " + CoqList(xs)
	default:
		return fmt.Errorf("unknown op %s", op.Op)
	}
	return nil
}

// ---------- generators

var c27HexPeers = []string{
	"02c0ffee00000000000000000000000000000000000000000000000000000000a1",
	"03deadbeef000000000000000000000000000000000000000000000000000000b2",
	"02abcdefabcdefabcdefabcdefabcdefabcdefabcdefabcdefabcdefabcdefabcd",
}
var c27OddPeers = []string{"p", "a.1", "a.1.2", "a", "default.1", "defaul", "Default", "x.default", "1", "-1.2", "1.1", "\xc3\xa9", "default "}

var c27RatesIn = []int64{0, 1, -1, 2000, 1000, 999999, -999999, 1000000, -1000000, 500000, -2000, 10, 7}
var c27RatesWide = []int64{1000001, -1000001, 1 << 31, (1 << 32) - 1, -(1 << 31), 1 << 40, 9223372036854775807, -9223372036854775808, -9223372036854775807, 9223372036854775806, 4611686018427387904, 3, -3, 1000000, -1000000, 0}
var c27AmtsIn = []uint64{0, 1, 999, 999999, 1000000, 1000001, 499999, 500, 123456789, 100000000, 2100000000000000 / 1000, 1 << 31, (1 << 32) - 1, 9223372036854, 9223372036853, 4611686018427}
var c27AmtsWide = []uint64{9223372036855, 9223372036854, 2100000000000000, 1 << 62, (1 << 63) - 1, 1 << 63, (1 << 63) + 1, ^uint64(0), ^uint64(0) - 1, 18446744073709, 18446744073710, 1 << 32, 1 << 53, 0, 1, 1000000}

func c27RateIn(r *Rng) int64 {
	if r.Chance(55) {
		return PickI(r, c27RatesIn)
	}
	return r.Range(-1000000, 1000000)
}
func c27AmtIn(r *Rng) uint64 {
	if r.Chance(45) {
		return PickU(r, c27AmtsIn)
	}
	if r.Chance(50) {
		return uint64(r.Range(0, 100000000))
	}
	return uint64(r.Range(0, 9223372036854))
}
func c27Asset(r *Rng) int64 {
	if r.Chance(88) {
		return PickI(r, []int64{1, 2})
	}
	return PickI(r, []int64{0, 3, -1, 2147483647, -2147483648, 12})
}

// inOverflowRegion: the finding's pattern, computed from the inputs only.
func inOverflowRegion(rate int64, amt uint64) bool {
	if amt >= 1<<63 {
		return true
	}
	p := new(big.Int).Mul(new(big.Int).SetUint64(amt), big.NewInt(rate))
	return !p.IsInt64()
}

type c27Case struct {
	Family string   `json:"family"`
	Region string   `json:"region"`
	Ops    []*c27Op `json:"ops"`
}

type c27Shadow map[string]bool // which (scope, asset, op) rows exist; only used to label branches

func shadowKey(scope string, a, o int64) string { return fmt.Sprintf("%q/%d/%d", scope, a, o) }

func runC27(args []string) error {
	fs := flag.NewFlagSet("c27", flag.ExitOnError)
	out := fs.String("out", "/verif/work/C27/c27", "output dir")
	seed := fs.Uint64("seed", 1, "seed")
	n := fs.Int("n", 400, "number of op-sequence cases (other families scale with it)")
	fs.Parse(args)
	r := NewRng(*seed)
	if err := os.MkdirAll(*out, 0o755); err != nil {
		return err
	}
	dbdir := filepath.Join(*out, "db")
	os.RemoveAll(dbdir)
	if err := os.MkdirAll(dbdir, 0o755); err != nil {
		return err
	}
	defer os.RemoveAll(dbdir)

	cf := NewCaseFile("From PS Require Import Model.Premium Model.C27Corr.", "c27_case", "c27_check", "c27_monitor")
	branches := map[string]int{}
	caseNo := 0

	runCase := func(c *c27Case, kind string) error {
		env := &c27Env{path: filepath.Join(dbdir, fmt.Sprintf("c27_%d.db", caseNo))}
		caseNo++
		if err := env.open(); err != nil {
			return err
		}
		defer func() { env.close(); os.Remove(env.path) }()
		sh := c27Shadow{}
		terms := []string{}
		nontriv := false
		scopeOf := func(p string) string {
			if p == premium.VerifDefaultPeerID {
				return "\x00global"
			}
			return "peer:" + p
		}
		label := func(p string, a, o int64, err bool) string {
			switch {
			case err && (a == 0 || o == 0):
				return "err-unspecified"
			case err:
				return "err-no-builtin"
			case sh[shadowKey(scopeOf(p), a, o)]:
				if scopeOf(p) == "\x00global" {
					return "global-row"
				}
				return "peer-row"
			case sh[shadowKey("\x00global", a, o)]:
				return "global-row"
			}
			return "builtin"
		}
		for _, op := range c.Ops {
			if err := env.exec(op); err != nil {
				return fmt.Errorf("case %d op %s: %v", caseNo, op.Op, err)
			}
			terms = append(terms, op.term)
			switch op.Op {
			case "set":
				if op.Err {
					branches["set:key-too-large"]++
				} else {
					branches["set:ok"]++
					sh[shadowKey(scopeOf(op.Peer), op.Asset, op.Oper)] = true
				}
				if op.Asset == 0 {
					branches["set:zero-value-rate"]++
				}
			case "setdefault":
				branches["setdefault"]++
				if !op.Err {
					sh[shadowKey("\x00global", op.Asset, op.Oper)] = true
				}
			case "delete":
				if sh[shadowKey(scopeOf(op.Peer), op.Asset, op.Oper)] {
					branches["delete:present"]++
				} else {
					branches["delete:absent"]++
				}
				delete(sh, shadowKey(scopeOf(op.Peer), op.Asset, op.Oper))
			case "get", "compute":
				l := label(op.Peer, op.Asset, op.Oper, op.Err)
				branches[op.Op+":"+l]++
				if l == "peer-row" || l == "global-row" {
					nontriv = true
				}
				if op.Op == "compute" && !op.Err && op.Val != nil && *op.Val < 0 {
					branches["compute:negative-premium"]++
				}
			case "getdefault":
				branches["getdefault:"+label(premium.VerifDefaultPeerID, op.Asset, op.Oper, op.Err)]++
			case "advert":
				l := "advert:all-builtin"
				for _, p := range c27Pairs {
					if x := label(op.Peer, p[0], p[1], false); x != "builtin" {
						l = "advert:configured"
						nontriv = true
					}
				}
				branches[l]++
			case "guard":
				l := label(op.Peer, op.Asset, op.Oper, false)
				if (op.Asset != 1 && op.Asset != 2) || (op.Oper != 1 && op.Oper != 2) {
					l = "fallback-no-rate"
					if sh[shadowKey(scopeOf(op.Peer), op.Asset, op.Oper)] || sh[shadowKey("\x00global", op.Asset, op.Oper)] {
						l = "configured-nonstandard-pair"
					}
					if op.Asset == 0 || op.Oper == 0 {
						l = "fallback-unspecified"
					}
				}
				branches["guard:"+l]++
			case "ppm":
				if inOverflowRegion(op.Rate, op.Amount) {
					branches["ppm:overflow-region"]++
				} else {
					branches["ppm:exact-region"]++
				}
				nontriv = true
			default:
				branches[op.Op]++
			}
		}
		js, _ := json.Marshal(c)
		keyOps := make([]string, 0, len(c.Ops))
		for _, op := range c.Ops {
			keyOps = append(keyOps, fmt.Sprintf("%s|%s|%d|%d|%d|%d", op.Op, op.Peer, op.Asset, op.Oper, op.Rate, op.Amount))
		}
		cf.Add(CoqList(terms), strings.Join(keyOps, ";"), nontriv, kind, json.RawMessage(js))
		return nil
	}

	// ---- family "seq": op sequences, rates within +-10^6, amounts where amt*rate cannot wrap
	genSeq := func(alias bool) *c27Case {
		c := &c27Case{Family: "seq", Region: "exact"}
		if alias {
			c.Family, c.Region = "alias", "default-peer"
		}
		peers := []string{PickS(r, c27HexPeers), PickS(r, c27HexPeers)}
		if r.Chance(50) {
			peers = append(peers, PickS(r, c27OddPeers))
		}
		if r.Chance(15) {
			peers = append(peers, PickS(r, c27OddPeers), "")
		}
		if alias {
			peers = append(peers, premium.VerifDefaultPeerID, premium.VerifDefaultPeerID)
		}
		validPeer := func() string {
			for i := 0; i < 20; i++ {
				p := PickS(r, peers)
				if _, err := peersync.NewPeerID(p); err == nil {
					return p
				}
			}
			return c27HexPeers[0]
		}
		nops := int(r.Range(6, 22))
		for i := 0; i < nops; i++ {
			p, a, o := PickS(r, peers), c27Asset(r), c27Asset(r)
			switch x := r.Intn(100); {
			case x < 22:
				if r.Chance(4) {
					a, o = 0, 0
				}
				if (a == 0) != (o == 0) {
					c.Ops = append(c.Ops, &c27Op{Op: "new", Asset: a, Oper: o, Rate: c27RateIn(r)})
					continue
				}
				rate := c27RateIn(r)
				if a == 0 {
					rate = 0
				}
				c.Ops = append(c.Ops, &c27Op{Op: "set", Peer: p, Asset: a, Oper: o, Rate: rate})
			case x < 32:
				if a == 0 || o == 0 {
					c.Ops = append(c.Ops, &c27Op{Op: "new", Asset: a, Oper: o, Rate: c27RateIn(r)})
					continue
				}
				c.Ops = append(c.Ops, &c27Op{Op: "setdefault", Asset: a, Oper: o, Rate: c27RateIn(r)})
			case x < 42:
				c.Ops = append(c.Ops, &c27Op{Op: "delete", Peer: p, Asset: a, Oper: o})
			case x < 57:
				c.Ops = append(c.Ops, &c27Op{Op: "get", Peer: p, Asset: a, Oper: o})
			case x < 62:
				c.Ops = append(c.Ops, &c27Op{Op: "getdefault", Asset: a, Oper: o})
			case x < 80:
				c.Ops = append(c.Ops, &c27Op{Op: "compute", Peer: p, Asset: a, Oper: o, Amount: c27AmtIn(r)})
			case x < 87:
				c.Ops = append(c.Ops, &c27Op{Op: "advert", Peer: validPeer()})
			case x < 90:
				c.Ops = append(c.Ops, &c27Op{Op: "guard", Peer: validPeer(), Asset: a, Oper: o})
			case x < 95:
				c.Ops = append(c.Ops, &c27Op{Op: "reopen"})
			default:
				c.Ops = append(c.Ops, &c27Op{Op: "dump"})
			}
		}
		// always end with a reopen followed by a read of everything: persistence
		c.Ops = append(c.Ops, &c27Op{Op: "reopen"}, &c27Op{Op: "advert", Peer: validPeer()}, &c27Op{Op: "dump"})
		return c
	}
	for i := 0; i < *n; i++ {
		if err := runCase(genSeq(false), "seq"); err != nil {
			return err
		}
	}
	for i := 0; i < *n/8+4; i++ {
		if err := runCase(genSeq(true), "alias"); err != nil {
			return err
		}
	}

	// ---- family "compute": set a rate, charge an amount; all of int64 x uint64
	addCompute := func(rate int64, amt uint64, viaDefault bool) error {
		c := &c27Case{Family: "compute", Region: "exact"}
		if inOverflowRegion(rate, amt) {
			c.Region = "overflow"
		}
		p := PickS(r, c27HexPeers)
		pr := c27Pairs[r.Intn(4)]
		if viaDefault {
			c.Ops = append(c.Ops, &c27Op{Op: "setdefault", Asset: pr[0], Oper: pr[1], Rate: rate})
		} else {
			c.Ops = append(c.Ops, &c27Op{Op: "set", Peer: p, Asset: pr[0], Oper: pr[1], Rate: rate})
		}
		c.Ops = append(c.Ops,
			&c27Op{Op: "get", Peer: p, Asset: pr[0], Oper: pr[1]},
			&c27Op{Op: "compute", Peer: p, Asset: pr[0], Oper: pr[1], Amount: amt},
			&c27Op{Op: "ppm", Rate: rate, Amount: amt})
		return runCase(c, "compute:"+c.Region)
	}
	// fixed witnesses first (the finding's replay and its neighbours)
	for _, w := range []struct {
		r int64
		a uint64
	}{{1000000, 9223372036855}, {1000000, 9223372036854}, {-1000000, 9223372036855}, {-1000000, 9223372036854}, {1, 1 << 63}, {1, (1 << 63) - 1}, {2000, 4611686018427388}, {2000, 4611686018427387}} {
		if err := addCompute(w.r, w.a, false); err != nil {
			return err
		}
	}
	for i := 0; i < *n/2; i++ {
		var rate int64
		var amt uint64
		switch r.Intn(6) {
		case 0:
			rate, amt = PickI(r, c27RatesWide), PickU(r, c27AmtsWide)
		case 1:
			rate, amt = c27RateIn(r), PickU(r, c27AmtsWide)
		case 2:
			rate, amt = PickI(r, c27RatesWide), c27AmtIn(r)
		case 3:
			rate, amt = int64(r.U64()), r.U64()
		case 4:
			// straddle the wrap boundary: amt close to 2^63 / |rate|
			rate = c27RateIn(r)
			if rate == 0 {
				rate = 1
			}
			abs := rate
			if abs < 0 {
				abs = -abs
			}
			q := uint64(1<<63) / uint64(abs)
			amt = q + uint64(r.Range(-2, 2))
		default:
			rate, amt = c27RateIn(r), c27AmtIn(r)
		}
		if err := addCompute(rate, amt, r.Chance(25)); err != nil {
			return err
		}
	}

	// ---- family "keysize": bbolt rejects keys above MaxKeySize (the only SetRate error path)
	for _, l := range []int{bbolt.MaxKeySize - 4, bbolt.MaxKeySize - 3} {
		p := strings.Repeat("k", l)
		c := &c27Case{Family: "keysize", Region: "exact", Ops: []*c27Op{
			{Op: "set", Peer: p, Asset: 1, Oper: 2, Rate: 777},
			{Op: "get", Peer: p, Asset: 1, Oper: 2},
			{Op: "delete", Peer: p, Asset: 1, Oper: 2},
			{Op: "get", Peer: p, Asset: 1, Oper: 2},
			{Op: "dump"},
			{Op: "compute", Peer: p, Asset: 1, Oper: 2, Amount: 1000000},
		}}
		if err := runCase(c, "keysize"); err != nil {
			return err
		}
	}

	fmt.Fprintf(os.Stderr, "c27 kinds: %v\nc27 branches: %v\n", cf.Kinds, branches)
	cf.Imports += "\n" + c27PeerDefs()
	return cf.Write(*out, 100, map[string]interface{}{"seed": *seed, "branches": branches})
}
