package main

// C21 — wire messages follow the protocol numbering and encoding.
// Runs the REAL messages.PeerswapCustomMessageType / MessageTypeToHexString,
// swap.MarshalPeerswapMessage, encoding/json on the real message structs and
// SwapService.OnMessageReceived (real bbolt swap store, premium store; fakes
// only for the lightning node, wallet, chain watcher and messenger).

import (
	"bytes"
	"context"
	"encoding/hex"
	"encoding/json"
	"errors"
	"flag"
	"fmt"
	"io"
	"os"
	"path/filepath"
	"reflect"
	"sort"
	"strings"
	"sync"

	"github.com/elementsproject/peerswap/messages"
	"github.com/elementsproject/peerswap/premium"
	"github.com/elementsproject/peerswap/swap"
	"go.etcd.io/bbolt"
)

// the seven swap message structs, in protocol order
var c21Structs = []reflect.Type{
	reflect.TypeOf(swap.SwapInRequestMessage{}),
	reflect.TypeOf(swap.SwapOutRequestMessage{}),
	reflect.TypeOf(swap.SwapInAgreementMessage{}),
	reflect.TypeOf(swap.SwapOutAgreementMessage{}),
	reflect.TypeOf(swap.OpeningTxBroadcastedMessage{}),
	reflect.TypeOf(swap.CancelMessage{}),
	reflect.TypeOf(swap.CoopCloseMessage{}),
}

var c21TypeNames = []struct {
	name string
	t    messages.MessageType
}{
	{"swap_in_request", messages.MESSAGETYPE_SWAPINREQUEST},
	{"swap_out_request", messages.MESSAGETYPE_SWAPOUTREQUEST},
	{"swap_in_agreement", messages.MESSAGETYPE_SWAPINAGREEMENT},
	{"swap_out_agreement", messages.MESSAGETYPE_SWAPOUTAGREEMENT},
	{"opening_tx_broadcasted", messages.MESSAGETYPE_OPENINGTXBROADCASTED},
	{"canceled", messages.MESSAGETYPE_CANCELED},
	{"coop_close", messages.MESSAGETYPE_COOPCLOSE},
	{"poll", messages.MESSAGETYPE_POLL},
	{"request_poll", messages.MESSAGETYPE_REQUEST_POLL},
}

type c21Field struct {
	name    string
	kind    string // Coq fkind term
	tagopts bool
	goKind  reflect.Kind
	isID    bool
}

func c21Schema(t reflect.Type) ([]c21Field, error) {
	out := []c21Field{}
	for i := 0; i < t.NumField(); i++ {
		f := t.Field(i)
		if !f.IsExported() {
			return nil, fmt.Errorf("%s has unexported field %s: schema dump does not cover it", t.Name(), f.Name)
		}
		tag := f.Tag.Get("json")
		parts := strings.Split(tag, ",")
		name := parts[0]
		if name == "" {
			name = f.Name
		}
		cf := c21Field{name: name, tagopts: len(parts) > 1, goKind: f.Type.Kind()}
		if tag == "-" {
			// a field hidden from JSON cannot round-trip: reported as an unsupported kind
			cf.kind = fmt.Sprintf("(KOther %s)", CoqStr("json:\"-\" "+f.Name))
			out = append(out, cf)
			continue
		}
		switch f.Type.Kind() {
		case reflect.Uint8, reflect.Uint16, reflect.Uint32, reflect.Uint64:
			cf.kind = fmt.Sprintf("(KUint %d)", f.Type.Bits())
		case reflect.Int8, reflect.Int16, reflect.Int32, reflect.Int64:
			cf.kind = fmt.Sprintf("(KInt %d)", f.Type.Bits())
		case reflect.String:
			cf.kind = "KString"
		default:
			cf.kind = fmt.Sprintf("(KOther %s)", CoqStr(f.Type.String()))
			// a pointer to a 32-byte array whose JSON codec is the lowercase hex string (probed)
			if f.Type.Kind() == reflect.Ptr && f.Type.Elem().Kind() == reflect.Array && f.Type.Elem().Len() == 32 &&
				f.Type.Elem().Elem().Kind() == reflect.Uint8 {
				p := reflect.New(f.Type.Elem())
				want := make([]byte, 32)
				for k := 0; k < 32; k++ {
					want[k] = byte(0xa0 + k)
					p.Elem().Index(k).SetUint(uint64(want[k]))
				}
				enc, err := json.Marshal(p.Interface())
				q := reflect.New(f.Type.Elem())
				err2 := json.Unmarshal([]byte("\""+strings.ToUpper(hex.EncodeToString(want))+"\""), q.Interface())
				if err == nil && err2 == nil && string(enc) == "\""+hex.EncodeToString(want)+"\"" && reflect.DeepEqual(p.Elem().Interface(), q.Elem().Interface()) {
					cf.kind = "KHex32Ptr"
					cf.isID = true
				}
			}
		}
		out = append(out, cf)
	}
	return out, nil
}

func structTypeNumber(t reflect.Type) int {
	pm := reflect.New(t).Interface().(swap.PeerMessage)
	_, n, _ := swap.MarshalPeerswapMessage(pm)
	return n
}

// probeMaxPayload finds the largest payload length OnMessageReceived lets through,
// using a type string that is not a peerswap type (no service is touched).
func probeMaxPayload() (int, error) {
	svc := swap.NewSwapService(swap.NewSwapServices(nil, nil, nil, nil, nil, nil, false, nil, nil, nil, false, nil, nil, nil, nil))
	ok := func(n int) bool { return svc.OnMessageReceived("peer", "0001", make([]byte, n)) == nil }
	if !ok(0) {
		return 0, errors.New("empty payload rejected")
	}
	lo, hi := 0, 1<<24
	if ok(hi) {
		return 0, errors.New("no payload limit below 16 MiB")
	}
	for hi-lo > 1 {
		mid := (lo + hi) / 2
		if ok(mid) {
			lo = mid
		} else {
			hi = mid
		}
	}
	return lo, nil
}

func init() {
	registerDump("WireC21.v", func() (string, error) {
		var b strings.Builder
		b.WriteString("From Coq Require Import ZArith String List.\nFrom PS Require Import Base.Json.\nImport ListNotations.\nLocal Open Scope Z_scope.\nLocal Open Scope string_scope.\n")
		fmt.Fprintf(&b, "Definition base_message_type : Z := %d.\n", messages.BASE_MESSAGE_TYPE)
		b.WriteString("Definition message_types : list (string * Z) := [\n")
		for i, tn := range c21TypeNames {
			sep := ";"
			if i == len(c21TypeNames)-1 {
				sep = ""
			}
			fmt.Fprintf(&b, "  (%s, %d)%s\n", CoqStr(tn.name), int(tn.t), sep)
		}
		b.WriteString("].\n")
		// hex spelling of each type as the code renders it
		b.WriteString("Definition message_type_hex : list (Z * string) := [\n")
		for i, tn := range c21TypeNames {
			sep := ";"
			if i == len(c21TypeNames)-1 {
				sep = ""
			}
			fmt.Fprintf(&b, "  (%d, %s)%s\n", int(tn.t), CoqStr(messages.MessageTypeToHexString(tn.t)), sep)
		}
		b.WriteString("].\n")
		mx, err := probeMaxPayload()
		if err != nil {
			return "", err
		}
		fmt.Fprintf(&b, "Definition max_payload_len : Z := %d.\n", mx)
		b.WriteString("Definition wire_schemas : list (string * (Z * schema)) := [\n")
		for i, t := range c21Structs {
			fs, err := c21Schema(t)
			if err != nil {
				return "", err
			}
			items := []string{}
			for _, f := range fs {
				items = append(items, fmt.Sprintf("mk_fspec %s %s %s", CoqStr(f.name), f.kind, CoqBool(f.tagopts)))
			}
			sep := ";"
			if i == len(c21Structs)-1 {
				sep = ""
			}
			fmt.Fprintf(&b, "  (%s, (%d, [%s]))%s\n", CoqStr(t.Name()), structTypeNumber(t), strings.Join(items, "; "), sep)
		}
		b.WriteString("].\n")
		return b.String(), nil
	})
	register("c21", "wire numbering / encoding / receive-guard correspondence cases", runC21)
}

// ---------------------------------------------------------------- JSON trees

type jnode struct {
	kind string // null bool num str arr obj
	b    bool
	s    string // literal (num) or content (str)
	arr  []*jnode
	keys []string
	vals []*jnode
}

func jNull() *jnode           { return &jnode{kind: "null"} }
func jNum(l string) *jnode    { return &jnode{kind: "num", s: l} }
func jStr(s string) *jnode    { return &jnode{kind: "str", s: s} }
func jBool(b bool) *jnode     { return &jnode{kind: "bool", b: b} }
func jArr(a ...*jnode) *jnode { return &jnode{kind: "arr", arr: a} }

func (n *jnode) coq() string {
	switch n.kind {
	case "null":
		return "JNull"
	case "bool":
		return "(JBool " + CoqBool(n.b) + ")"
	case "num":
		return "(JNum " + CoqStr(n.s) + ")"
	case "str":
		return "(JStr " + CoqStr(n.s) + ")"
	case "arr":
		xs := []string{}
		for _, a := range n.arr {
			xs = append(xs, a.coq())
		}
		return "(JArr " + CoqList(xs) + ")"
	default:
		xs := []string{}
		for i, k := range n.keys {
			xs = append(xs, "("+CoqStr(k)+", "+n.vals[i].coq()+")")
		}
		return "(JObj " + CoqList(xs) + ")"
	}
}

func jsonQuote(s string) string {
	b, _ := json.Marshal(s)
	return string(b)
}

func (n *jnode) render(r *Rng, b *bytes.Buffer) {
	ws := func() {
		if r != nil && r.Chance(10) {
			b.WriteString(PickS(r, []string{" ", "\n", "\t", "  "}))
		}
	}
	switch n.kind {
	case "null":
		b.WriteString("null")
	case "bool":
		fmt.Fprintf(b, "%v", n.b)
	case "num":
		b.WriteString(n.s)
	case "str":
		b.WriteString(jsonQuote(n.s))
	case "arr":
		b.WriteString("[")
		for i, a := range n.arr {
			if i > 0 {
				b.WriteString(",")
			}
			ws()
			a.render(r, b)
		}
		b.WriteString("]")
	default:
		b.WriteString("{")
		for i, k := range n.keys {
			if i > 0 {
				b.WriteString(",")
			}
			ws()
			b.WriteString(jsonQuote(k))
			ws()
			b.WriteString(":")
			ws()
			n.vals[i].render(r, b)
		}
		ws()
		b.WriteString("}")
	}
}

// parseTree parses JSON bytes into an ordered tree (numbers keep their literal).
func parseTree(data []byte) (*jnode, error) {
	dec := json.NewDecoder(bytes.NewReader(data))
	dec.UseNumber()
	n, err := parseValue(dec)
	if err != nil {
		return nil, err
	}
	if _, err := dec.Token(); err != io.EOF {
		return nil, errors.New("trailing data")
	}
	return n, nil
}

func parseValue(dec *json.Decoder) (*jnode, error) {
	tok, err := dec.Token()
	if err != nil {
		return nil, err
	}
	switch v := tok.(type) {
	case nil:
		return jNull(), nil
	case bool:
		return jBool(v), nil
	case json.Number:
		return jNum(string(v)), nil
	case string:
		return jStr(v), nil
	case json.Delim:
		if v == '[' {
			n := &jnode{kind: "arr"}
			for dec.More() {
				c, err := parseValue(dec)
				if err != nil {
					return nil, err
				}
				n.arr = append(n.arr, c)
			}
			_, err := dec.Token()
			return n, err
		}
		n := &jnode{kind: "obj"}
		for dec.More() {
			kt, err := dec.Token()
			if err != nil {
				return nil, err
			}
			c, err := parseValue(dec)
			if err != nil {
				return nil, err
			}
			n.keys = append(n.keys, kt.(string))
			n.vals = append(n.vals, c)
		}
		_, err := dec.Token()
		return n, err
	}
	return nil, errors.New("unexpected token")
}

// ---------------------------------------------------------------- message values

type fvalue struct {
	kind string // num str id
	u    uint64
	i    int64
	neg  bool // use i
	s    string
	id   *[32]byte
}

func (v fvalue) coq() string {
	switch v.kind {
	case "num":
		if v.neg {
			return "(VNum " + CoqZ(v.i) + ")"
		}
		return "(VNum " + CoqZu(v.u) + ")"
	case "str":
		return "(VStr " + CoqStr(v.s) + ")"
	default:
		if v.id == nil {
			return "(VId None)"
		}
		return "(VId (Some " + CoqStr(hex.EncodeToString(v.id[:])) + "))"
	}
}

func (v fvalue) js() interface{} {
	switch v.kind {
	case "num":
		if v.neg {
			return v.i
		}
		return v.u
	case "str":
		return v.s
	default:
		if v.id == nil {
			return nil
		}
		return hex.EncodeToString(v.id[:])
	}
}

func coqMsg(vs []fvalue) string {
	xs := []string{}
	for _, v := range vs {
		xs = append(xs, v.coq())
	}
	return CoqList(xs)
}

func jsMsg(fs []c21Field, vs []fvalue) map[string]interface{} {
	m := map[string]interface{}{}
	for i, f := range fs {
		m[f.name] = vs[i].js()
	}
	return m
}

// project a *T (reflect.Value of kind Ptr, non-nil) to field values
func projectMsg(p reflect.Value) []fvalue {
	e := p.Elem()
	out := []fvalue{}
	for i := 0; i < e.NumField(); i++ {
		f := e.Field(i)
		switch f.Kind() {
		case reflect.Uint8, reflect.Uint16, reflect.Uint32, reflect.Uint64:
			out = append(out, fvalue{kind: "num", u: f.Uint()})
		case reflect.Int8, reflect.Int16, reflect.Int32, reflect.Int64:
			out = append(out, fvalue{kind: "num", i: f.Int(), neg: true})
		case reflect.String:
			out = append(out, fvalue{kind: "str", s: f.String()})
		case reflect.Ptr:
			if f.IsNil() {
				out = append(out, fvalue{kind: "id"})
			} else {
				var a [32]byte
				reflect.Copy(reflect.ValueOf(a[:]), f.Elem())
				out = append(out, fvalue{kind: "id", id: &a})
			}
		default:
			out = append(out, fvalue{kind: "str", s: fmt.Sprint(f.Interface())})
		}
	}
	return out
}

func buildMsg(t reflect.Type, vs []fvalue) reflect.Value {
	p := reflect.New(t)
	e := p.Elem()
	for i := 0; i < e.NumField(); i++ {
		f := e.Field(i)
		v := vs[i]
		switch f.Kind() {
		case reflect.Uint8, reflect.Uint16, reflect.Uint32, reflect.Uint64:
			f.SetUint(v.u)
		case reflect.Int8, reflect.Int16, reflect.Int32, reflect.Int64:
			f.SetInt(v.i)
		case reflect.String:
			f.SetString(v.s)
		case reflect.Ptr:
			if v.id != nil {
				id := reflect.New(f.Type().Elem())
				reflect.Copy(id.Elem(), reflect.ValueOf(v.id[:]))
				f.Set(id)
			}
		}
	}
	return p
}

var c21Strings = []string{"", "a", "regtest", "mainnet", "539268x845x1", "1:2:3", "lnbcrt1...", "with \"quotes\" and \\ backslash", "<html>&amp;", "line\nbreak\ttab", "  ", "café 世界 \U0001F600", "\x00\x01\x1f", "null", "{}", strings.Repeat("x", 300), "02" + strings.Repeat("ab", 32), strings.Repeat("00", 32), "ſK"}

func genFieldValue(r *Rng, f c21Field, bits int) fvalue {
	switch {
	case f.isID:
		if r.Chance(10) {
			return fvalue{kind: "id"}
		}
		var a [32]byte
		switch r.Intn(4) {
		case 0: // zero id
		case 1:
			for i := range a {
				a[i] = 0xff
			}
		default:
			for i := range a {
				a[i] = byte(r.U64())
			}
		}
		return fvalue{kind: "id", id: &a}
	case f.goKind == reflect.String:
		return fvalue{kind: "str", s: PickS(r, c21Strings)}
	case f.goKind == reflect.Int64:
		return fvalue{kind: "num", neg: true, i: PickI(r, []int64{0, 1, -1, 1000, -1000, 1<<63 - 1, -1 << 63, 1 << 53, r.Range(-100000, 100000)})}
	default:
		max := uint64(1)<<uint(bits) - 1
		if bits == 64 {
			max = 1<<64 - 1
		}
		return fvalue{kind: "num", u: PickU(r, []uint64{0, 1, 2, 5, max, max - 1, max / 2, uint64(r.Range(0, 1<<40)) % (max/2 + 1)})}
	}
}

func genMsg(r *Rng, t reflect.Type, fs []c21Field) []fvalue {
	vs := []fvalue{}
	for i, f := range fs {
		bits := 0
		switch t.Field(i).Type.Kind() {
		case reflect.Uint8, reflect.Uint16, reflect.Uint32, reflect.Uint64:
			bits = t.Field(i).Type.Bits()
		}
		vs = append(vs, genFieldValue(r, f, bits))
	}
	return vs
}

func fieldToJSON(v fvalue) *jnode {
	switch v.kind {
	case "num":
		if v.neg {
			return jNum(fmt.Sprint(v.i))
		}
		return jNum(fmt.Sprint(v.u))
	case "str":
		return jStr(v.s)
	default:
		if v.id == nil {
			return jNull()
		}
		return jStr(hex.EncodeToString(v.id[:]))
	}
}

var c21NumLits = []string{"0", "-0", "1", "-1", "255", "256", "65535", "4294967295", "4294967296", "9223372036854775807", "9223372036854775808", "-9223372036854775808",
	"-9223372036854775809", "18446744073709551615", "18446744073709551616", "1.0", "1e2", "1E2", "0.5", "1e-2", "100000000000000000000000", "2.5e3", "7"}

func variantKey(r *Rng, k string) string {
	switch r.Intn(6) {
	case 0:
		return strings.ToUpper(k)
	case 1:
		return strings.Title(k)
	case 2:
		return strings.Replace(k, "s", "ſ", 1) // long s folds to S
	case 3:
		return strings.Replace(k, "k", "K", 1) // Kelvin sign folds to K
	case 4:
		return k + "_"
	default:
		return strings.Replace(k, "_", "-", 1)
	}
}

func junkValue(r *Rng) *jnode {
	switch r.Intn(9) {
	case 0:
		return jNull()
	case 1:
		return jBool(r.Bool())
	case 2, 3:
		return jNum(PickS(r, c21NumLits))
	case 4, 5:
		return jStr(PickS(r, append(c21Strings, strings.Repeat("AB", 32), strings.Repeat("ab", 31), strings.Repeat("ab", 33), strings.Repeat("zz", 32), strings.Repeat("a", 63))))
	case 6:
		return jArr(jNum("1"), jStr("x"))
	case 7:
		return &jnode{kind: "obj", keys: []string{"a"}, vals: []*jnode{jNum("1")}}
	default:
		return jArr()
	}
}

// a JSON document derived from a valid message of the struct, with mutations
func genDecodeDoc(r *Rng, t reflect.Type, fs []c21Field) (*jnode, string) {
	if r.Chance(8) {
		n := PickS(r, []string{"null", "num", "str", "arr", "bool", "empty"})
		switch n {
		case "null":
			return jNull(), "top-null"
		case "num":
			return jNum("42069"), "top-scalar"
		case "str":
			return jStr("{}"), "top-scalar"
		case "arr":
			return jArr(&jnode{kind: "obj"}), "top-array"
		case "bool":
			return jBool(true), "top-scalar"
		default:
			return &jnode{kind: "obj"}, "empty-object"
		}
	}
	vs := genMsg(r, t, fs)
	doc := &jnode{kind: "obj"}
	for i, f := range fs {
		doc.keys = append(doc.keys, f.name)
		doc.vals = append(doc.vals, fieldToJSON(vs[i]))
	}
	kind := "valid"
	nm := 0
	if r.Chance(80) {
		nm = 1 + r.Intn(3)
	}
	for m := 0; m < nm && len(doc.keys) > 0; m++ {
		i := r.Intn(len(doc.keys))
		switch r.Intn(9) {
		case 0:
			doc.keys = append(doc.keys[:i], doc.keys[i+1:]...)
			doc.vals = append(doc.vals[:i], doc.vals[i+1:]...)
			kind = "missing-field"
		case 1:
			doc.vals[i] = jNull()
			kind = "null-field"
		case 2, 3:
			doc.vals[i] = junkValue(r)
			kind = "junk-value"
		case 4:
			doc.keys[i] = variantKey(r, doc.keys[i])
			kind = "key-variant"
		case 5:
			doc.keys = append(doc.keys, doc.keys[i])
			doc.vals = append(doc.vals, junkValue(r))
			kind = "duplicate-key"
		case 6:
			doc.keys = append(doc.keys, PickS(r, []string{"extra", "", "swap", "id", "é"}))
			doc.vals = append(doc.vals, junkValue(r))
			kind = "extra-key"
		case 7:
			doc.vals[i] = jNum(PickS(r, c21NumLits))
			kind = "number-literal"
		default:
			j := r.Intn(len(doc.keys))
			doc.keys[i], doc.keys[j] = doc.keys[j], doc.keys[i]
			doc.vals[i], doc.vals[j] = doc.vals[j], doc.vals[i]
			kind = "reordered"
		}
	}
	return doc, kind
}

// ---------------------------------------------------------------- fakes for the service

type c21Messenger struct {
	mu   sync.Mutex
	sent int
}

func (m *c21Messenger) SendMessage(peerId string, message []byte, messageType int) error {
	m.mu.Lock()
	m.sent++
	m.mu.Unlock()
	return nil
}
func (m *c21Messenger) AddMessageHandler(func(peerId string, msgType string, payload []byte) error) {}
func (m *c21Messenger) count() int {
	m.mu.Lock()
	defer m.mu.Unlock()
	return m.sent
}

type c21Policy struct{}

func (c21Policy) IsPeerAllowed(string) bool            { return true }
func (c21Policy) IsPeerSuspicious(string) bool         { return false }
func (c21Policy) AddToSuspiciousPeerList(string) error { return nil }
func (c21Policy) GetReserveOnchainMsat() uint64        { return 0 }
func (c21Policy) GetMinSwapAmountMsat() uint64         { return 100000000 }
func (c21Policy) NewSwapsAllowed() bool                { return true }

type c21Lightning struct{}

func (c21Lightning) DecodePayreq(string) (string, uint64, int64, error) {
	return "", 0, 0, errors.New("fake: no invoice")
}
func (c21Lightning) PayInvoice(string) (string, error) { return "", errors.New("fake") }
func (c21Lightning) GetPayreq(uint64, string, string, string, swap.InvoiceType, uint64, uint64) (string, error) {
	return "lnbcrt1fake", nil
}
func (c21Lightning) PayInvoiceViaChannel(string, string) (string, error) {
	return "", errors.New("fake")
}
func (c21Lightning) AddPaymentCallback(func(string, swap.InvoiceType))   {}
func (c21Lightning) AddPaymentNotifier(string, string, swap.InvoiceType) {}
func (c21Lightning) RebalancePayment(string, string, uint32) (string, error) {
	return "", errors.New("fake")
}
func (c21Lightning) RecoverClaimPayment(string) (string, error)        { return "", errors.New("fake") }
func (c21Lightning) CanSpend(uint64) error                             { return nil }
func (c21Lightning) Implementation() string                            { return "FAKE" }
func (c21Lightning) SpendableMsat(string) (uint64, error)              { return 1 << 40, nil }
func (c21Lightning) ReceivableMsat(string) (uint64, error)             { return 1 << 40, nil }
func (c21Lightning) ProbePayment(string, uint64) (bool, string, error) { return true, "", nil }

type c21Chain struct{}

func (c21Chain) AddWaitForConfirmationTx(string, string, uint32, uint32, uint32, []byte) {}
func (c21Chain) AddWaitForCsvTx(string, string, uint32, uint32, uint32, []byte)          {}
func (c21Chain) AddConfirmationCallback(func(string, string, error) error)               {}
func (c21Chain) AddCsvCallback(func(string) error)                                       {}
func (c21Chain) GetBlockHeight() (uint32, error)                                         { return 1000, nil }
func (c21Chain) StartWatchingTxs() error                                                 { return nil }
func (c21Chain) TxIdFromHex(string) (string, error)                                      { return "", errors.New("fake") }
func (c21Chain) ValidateTx(*swap.OpeningParams, string) (bool, error) {
	return false, errors.New("fake")
}
func (c21Chain) GetCSVHeight() uint32                  { return 1008 }
func (c21Chain) SetLabel(string, string, string) error { return nil }
func (c21Chain) CreateOpeningTransaction(*swap.OpeningParams) (string, string, string, uint64, uint32, error) {
	return "", "", "", 0, 0, errors.New("fake")
}
func (c21Chain) CreatePreimageSpendingTransaction(*swap.OpeningParams, *swap.ClaimParams) (string, string, string, error) {
	return "", "", "", errors.New("fake")
}
func (c21Chain) CreateCsvSpendingTransaction(*swap.OpeningParams, *swap.ClaimParams) (string, string, string, error) {
	return "", "", "", errors.New("fake")
}
func (c21Chain) CreateCoopSpendingTransaction(*swap.OpeningParams, *swap.ClaimParams, swap.Signer) (string, string, string, error) {
	return "", "", "", errors.New("fake")
}
func (c21Chain) GetOutputScript(*swap.OpeningParams) ([]byte, error) { return nil, errors.New("fake") }
func (c21Chain) NewAddress() (string, error)                         { return "bcrt1qfake", nil }
func (c21Chain) GetRefundFee() (uint64, error)                       { return 500, nil }
func (c21Chain) GetFlatOpeningTXFee() (uint64, error)                { return 500, nil }
func (c21Chain) GetAsset() string                                    { return "" }
func (c21Chain) GetNetwork() string                                  { return "regtest" }
func (c21Chain) GetOnchainBalance() (uint64, error)                  { return 1 << 40, nil }

type c21Service struct {
	svc       *swap.SwapService
	messenger *c21Messenger
	db        *bbolt.DB
}

func newC21Service(dir string) (*c21Service, error) {
	os.Remove(filepath.Join(dir, "swaps.db"))
	db, err := bbolt.Open(filepath.Join(dir, "swaps.db"), 0o600, &bbolt.Options{NoSync: true})
	if err != nil {
		return nil, err
	}
	store, err := swap.NewBboltStore(db)
	if err != nil {
		return nil, err
	}
	rstore, err := swap.NewRequestedSwapsStore(db)
	if err != nil {
		return nil, err
	}
	ps, err := premium.NewSetting(db)
	if err != nil {
		return nil, err
	}
	m := &c21Messenger{}
	ch := c21Chain{}
	services := swap.NewSwapServices(store, rstore, c21Lightning{}, m, messages.NewManager(), c21Policy{},
		true, ch, ch, ch, true, ch, ch, ch, ps)
	svc := swap.NewSwapService(services)
	if err := svc.Start(); err != nil {
		return nil, err
	}
	return &c21Service{svc: svc, messenger: m, db: db}, nil
}

// snapshot of everything a message could change: persisted swaps (id, state), active swaps, messages sent
func (s *c21Service) snapshot() string {
	xs := []string{}
	all, err := s.svc.ListSwaps()
	if err != nil {
		xs = append(xs, "ERR:"+err.Error())
	}
	for _, sw := range all {
		js, _ := json.Marshal(sw.Data)
		xs = append(xs, fmt.Sprintf("S|%s|%s|%s|%x", sw.SwapId.String(), sw.Current, sw.Previous, js))
	}
	act, _ := s.svc.ListActiveSwaps()
	for _, sw := range act {
		xs = append(xs, fmt.Sprintf("A|%s|%s", sw.SwapId.String(), sw.Current))
	}
	sort.Strings(xs)
	return fmt.Sprintf("%d#%s", s.messenger.count(), strings.Join(xs, "\n"))
}

type recvObs struct {
	panicked bool
	err      bool
	changed  bool
	sends    int
}

func (s *c21Service) receive(peer, ty string, payload []byte) (o recvObs) {
	before := s.snapshot()
	sent0 := s.messenger.count()
	func() {
		defer func() {
			if r := recover(); r != nil {
				o.panicked = true
			}
		}()
		o.err = s.svc.OnMessageReceived(peer, ty, payload) != nil
	}()
	o.sends = s.messenger.count() - sent0
	o.changed = s.snapshot() != before
	return o
}

// ---------------------------------------------------------------- the run

var c21TypeStrings = []string{"", "0", "1", "a455", "A455", "a456", "a454", "a457", "a465", "a467", "a453", "0a455", "00a455", "0000a455", "+a455", "-a455", "0xa455", "a4 55", " a455", "a455 ",
	"a_455", "g455", "a45", "a4555", "ffff", "7fffffffffffffff", "8000000000000000", "-8000000000000000", "-8000000000000001", "ffffffffffffffff", "10000000000000000a455",
	"1a455", "1a45f", "ffffa455", "100000000a455", "-5bab", "-5ba1", "55", "5f", "42069", "a455\x00", "\xc3\xa9", "+", "-", "a463", "a465", "a461", "a45f", "a45d", "a45b", "a459"}

func genTypeString(r *Rng) string {
	switch r.Intn(10) {
	case 0, 1, 2:
		return PickS(r, c21TypeStrings)
	case 3, 4, 5, 6:
		tn := c21TypeNames[r.Intn(len(c21TypeNames))]
		s := messages.MessageTypeToHexString(tn.t)
		if r.Chance(20) {
			s = strings.ToUpper(s)
		}
		return s
	case 7:
		return fmt.Sprintf("%x", 42069+r.Range(-6, 22))
	case 8:
		// numbers that only ALIAS a peerswap type: equal to one modulo 2^16 / 2^32, the negative of its two's
		// complement, or the same digits with a longer prefix (a parser that truncates would accept them)
		t := int64(c21TypeNames[r.Intn(len(c21TypeNames))].t)
		switch r.Intn(6) {
		case 0:
			return fmt.Sprintf("%x", t+int64(1+r.Intn(15))<<16)
		case 1:
			return fmt.Sprintf("%x", t+int64(1+r.Intn(3))<<32)
		case 2:
			return fmt.Sprintf("-%x", 65536-t)
		case 3:
			return fmt.Sprintf("-%x", int64(1)<<32-t)
		case 4:
			return fmt.Sprintf("ffff%x", t)
		default:
			return fmt.Sprintf("%x", t&0xff)
		}
	default:
		n := r.Intn(6)
		var b strings.Builder
		for i := 0; i < n; i++ {
			b.WriteString(PickS(r, []string{"0", "1", "4", "5", "a", "A", "f", "F", "g", "x", "-", "+", "_", " "}))
		}
		return b.String()
	}
}

func coqTypeResult(s string) (string, string) {
	t, err := messages.PeerswapCustomMessageType(s)
	switch {
	case err == nil:
		return fmt.Sprintf("(TOk %d)", int(t)), "ok"
	case errors.Is(err, &messages.ErrNotPeerswapCustomMessage{}):
		return "TNotPeerswap", "not-peerswap"
	default:
		return "TErr", "parse-error"
	}
}

func runC21(args []string) error {
	fs := flag.NewFlagSet("c21", flag.ExitOnError)
	out := fs.String("out", "/verif/work/C21", "output dir")
	seed := fs.Uint64("seed", 1, "seed")
	n := fs.Int("n", 300, "cases per family")
	fs.Parse(args)
	r := NewRng(*seed)
	if err := os.MkdirAll(*out, 0o755); err != nil {
		return err
	}
	cf := NewCaseFile("From PS Require Import Base.Json Model.Wire Model.C21Corr.",
		"c21_case", "c21_check", "c21_monitor")

	schemas := [][]c21Field{}
	for _, t := range c21Structs {
		s, err := c21Schema(t)
		if err != nil {
			return err
		}
		schemas = append(schemas, s)
	}

	// ---------- family 1: type strings
	// boundary table (always): every number around the protocol range, both letter cases, and with zero padding
	typeTable := []string{}
	for v := 42069 - 10; v <= 42085+10; v++ {
		typeTable = append(typeTable, fmt.Sprintf("%x", v), fmt.Sprintf("%X", v), fmt.Sprintf("%08x", v))
	}
	typeTable = append(typeTable, c21TypeStrings...)
	for i := 0; i < *n+len(typeTable); i++ {
		var s string
		if i < len(typeTable) {
			s = typeTable[i]
		} else {
			s = genTypeString(r)
		}
		obs, kind := coqTypeResult(s)
		cf.Add(fmt.Sprintf("CType %s %s", CoqStr(s), obs), "type|"+s, kind != "parse-error" || s != "", "type:"+kind,
			map[string]interface{}{"fn": "PeerswapCustomMessageType", "type_string": s, "result": kind})
	}
	// hex rendering of arbitrary type numbers
	for i := 0; i < *n/4; i++ {
		v := PickI(r, []int64{0, 1, 15, 16, 42069, 42085, 42068, 65535, 65536, 1<<31 - 1, 1<<63 - 1, -1, -42069, -1 << 63, r.Range(42060, 42090), int64(r.U64())})
		h := messages.MessageTypeToHexString(messages.MessageType(v))
		cf.Add(fmt.Sprintf("CHex %s %s", CoqZ(v), CoqStr(h)), fmt.Sprintf("hex|%d", v), true, "hex",
			map[string]interface{}{"fn": "MessageTypeToHexString", "value": v, "hex": h})
	}

	// ---------- family 2: MarshalPeerswapMessage + round trip through the real decoder
	for i := 0; i < *n; i++ {
		k := i % len(c21Structs)
		t, sch := c21Structs[k], schemas[k]
		vs := genMsg(r, t, sch)
		p := buildMsg(t, vs)
		data, tyNum, err := swap.MarshalPeerswapMessage(p.Interface().(swap.PeerMessage))
		if err != nil {
			return fmt.Errorf("marshal %s: %v", t.Name(), err)
		}
		tree, err := parseTree(data)
		if err != nil {
			return fmt.Errorf("marshal %s produced unparsable JSON: %v", t.Name(), err)
		}
		// decode back with the real decoder, the way OnMessageReceived does
		pp := reflect.New(reflect.PtrTo(t))
		derr := json.Unmarshal(data, pp.Interface())
		back := "DErr"
		var backJS interface{}
		if derr == nil {
			if pp.Elem().IsNil() {
				back = "DNil"
			} else {
				bv := projectMsg(pp.Elem())
				back = "(DMsg " + coqMsg(bv) + ")"
				backJS = jsMsg(sch, bv)
			}
		}
		term := fmt.Sprintf("CEncode %s %s %d%%Z %s %s", CoqStr(t.Name()), coqMsg(vs), tyNum, tree.coq(), back)
		cf.Add(term, fmt.Sprintf("enc|%s|%s", t.Name(), data), true, "encode:"+t.Name(),
			map[string]interface{}{"fn": "MarshalPeerswapMessage", "struct": t.Name(), "message": jsMsg(sch, vs), "type": tyNum,
				"bytes": string(data), "decoded_back": backJS, "decode_err": derr != nil})
	}

	// ---------- family 3: json.Unmarshal into *T on generated documents
	for i := 0; i < *n; i++ {
		k := r.Intn(len(c21Structs))
		t, sch := c21Structs[k], schemas[k]
		doc, kind := genDecodeDoc(r, t, sch)
		var buf bytes.Buffer
		doc.render(r, &buf)
		data := buf.Bytes()
		// the tree handed to the model is re-parsed from the bytes (so it is what a JSON parser sees)
		tree, err := parseTree(data)
		if err != nil {
			return fmt.Errorf("generator produced invalid JSON %q: %v", data, err)
		}
		pp := reflect.New(reflect.PtrTo(t))
		derr := json.Unmarshal(data, pp.Interface())
		obs := "DErr"
		res := "err"
		var js interface{}
		if derr == nil {
			if pp.Elem().IsNil() {
				obs, res = "DNil", "nil"
			} else {
				bv := projectMsg(pp.Elem())
				obs, res = "(DMsg "+coqMsg(bv)+")", "msg"
				js = jsMsg(sch, bv)
			}
		}
		term := fmt.Sprintf("CDecode %s %s %s", CoqStr(t.Name()), tree.coq(), obs)
		cf.Add(term, fmt.Sprintf("dec|%s|%s", t.Name(), data), kind != "valid", "decode:"+kind+":"+res,
			map[string]interface{}{"fn": "json.Unmarshal", "struct": t.Name(), "bytes": string(data), "result": res, "message": js})
	}

	// ---------- family 4: SwapService.OnMessageReceived
	svc, err := newC21Service(*out)
	if err != nil {
		return err
	}
	defer func() { svc.db.Close() }()
	maxLen, err := probeMaxPayload()
	if err != nil {
		return err
	}
	// a live swap, so that "no swap changes" is not vacuous: a valid swap-out request from peer A
	liveID := strings.Repeat("5a", 32)
	liveReq := fmt.Sprintf(`{"protocol_version":5,"swap_id":"%s","asset":"","network":"regtest","scid":"100x1x0","amount":1000000,"pubkey":"02%s","acceptable_premium":100000}`, liveID, strings.Repeat("11", 32))
	peerA := "02" + strings.Repeat("aa", 32)
	svc.receive(peerA, messages.MessageTypeToHexString(messages.MESSAGETYPE_SWAPOUTREQUEST), []byte(liveReq))

	swapTypeHex := []string{}
	for _, tn := range c21TypeNames[:7] {
		swapTypeHex = append(swapTypeHex, messages.MessageTypeToHexString(tn.t))
	}
	// fixed boundary inputs first: every swap type x {null, {}, {"swap_id":null}, [], size limit +-1}
	type fixedCase struct {
		ty, kind string
		payload  []byte
	}
	fixed := []fixedCase{}
	for _, th := range swapTypeHex {
		for _, pl := range []string{"null", "{}", `{"swap_id":null}`, "[]", "0", `""`} {
			fixed = append(fixed, fixedCase{th, "fixed", []byte(pl)})
		}
		for _, d := range []int{-1, 0, 1} {
			pl := bytes.Repeat([]byte(" "), maxLen+d)
			copy(pl, []byte("{"))
			fixed = append(fixed, fixedCase{th, "size", pl})
		}
	}
	// a perfectly valid new swap-out request / cancel of the live swap, padded with JSON whitespace to the
	// size limit and one byte beyond it: only the size decides
	for _, d := range []int{0, 1, 1000} {
		req := strings.Replace(liveReq, liveID, strings.Repeat(fmt.Sprintf("%02x", 0x70+d%16), 32), 1)
		pl := bytes.Repeat([]byte(" "), maxLen+d)
		copy(pl, []byte(req))
		fixed = append(fixed, fixedCase{messages.MessageTypeToHexString(messages.MESSAGETYPE_SWAPOUTREQUEST), "size", pl})
	}
	for i := 0; i < *n+len(fixed); i++ {
		var ty string
		var payload []byte
		kind := ""
		wellformed := true
		var tree *jnode
		sel := r.Intn(12)
		if i < len(fixed) {
			sel = -1
			ty, payload, kind = fixed[i].ty, fixed[i].payload, fixed[i].kind
		}
		switch sel {
		case -1:
		case 0: // size boundary, any type
			ty = genTypeString(r)
			ln := maxLen + int(r.Range(-1, 2))
			if r.Chance(30) {
				ln = maxLen + 1 + r.Intn(50000)
			}
			// a small document padded with JSON whitespace to the wanted length (the tree stays small)
			doc := PickS(r, []string{"null", `{"swap_id":"` + liveID + `","message":"x"}`, "{}", "{", liveReq})
			payload = bytes.Repeat([]byte(" "), ln)
			copy(payload, []byte(doc))
			kind = "size"
		case 1, 2: // not a swap message type / malformed type string, arbitrary payload
			ty = genTypeString(r)
			payload = []byte(PickS(r, []string{"", "null", "{}", liveReq, "\x00\xff", "{\"swap_id\":\"" + liveID + "\"}"}))
			kind = "type"
		case 3, 4: // swap type, bytes that are not JSON
			ty = PickS(r, swapTypeHex)
			payload = []byte(PickS(r, []string{"", " ", "{", "}", "{\"swap_id\":", "nul", "nulll", "{\"a\":1,}", "[", "\"abc", "{\"swap_id\":\"" + liveID + "\"} x", "\xff\xfe", "{'a':1}", "01", "-", "1e", "{\"a\" 1}", "\x00"}))
			wellformed = false
			kind = "not-json"
		case 5, 6: // swap type, JSON that is not an object of the struct's shape
			ty = PickS(r, swapTypeHex)
			k := r.Intn(len(c21Structs))
			doc, dk := genDecodeDoc(r, c21Structs[k], schemas[k])
			if r.Chance(40) {
				doc, dk = PickNode(r), "top-junk"
			}
			var buf bytes.Buffer
			doc.render(r, &buf)
			payload = buf.Bytes()
			kind = "doc-" + dk
		case 7: // the confirmed crash input
			ty = PickS(r, swapTypeHex)
			payload = []byte(PickS(r, []string{"null", " null", "null\n", "\tnull "}))
			kind = "null"
		default: // poll types and well-formed swap messages (dispatched; outside this property)
			k := r.Intn(len(c21Structs))
			ty = messages.MessageTypeToHexString(messages.MessageType(structTypeNumber(c21Structs[k])))
			if r.Chance(25) {
				ty = PickS(r, []string{"a463", "a465"})
			}
			vs := genMsg(r, c21Structs[k], schemas[k])
			doc := &jnode{kind: "obj"}
			for j, f := range schemas[k] {
				doc.keys = append(doc.keys, f.name)
				doc.vals = append(doc.vals, fieldToJSON(vs[j]))
			}
			var buf bytes.Buffer
			doc.render(nil, &buf)
			payload = buf.Bytes()
			kind = "wellformed"
		}
		if wellformed {
			t, perr := parseTree(payload)
			if perr != nil || !json.Valid(payload) {
				wellformed = false
			} else {
				tree = t
			}
		}
		peer := PickS(r, []string{peerA, "03" + strings.Repeat("bb", 32), ""})
		if i > 0 && i%250 == 0 {
			svc.db.Close()
			if svc, err = newC21Service(*out); err != nil {
				return err
			}
			svc.receive(peerA, messages.MessageTypeToHexString(messages.MESSAGETYPE_SWAPOUTREQUEST), []byte(liveReq))
		}
		o := svc.receive(peer, ty, payload)
		treeTerm := "None"
		if wellformed {
			treeTerm = "(Some " + tree.coq() + ")"
		}
		term := fmt.Sprintf("CRecv %s %d%%Z %s (mk_recv_obs %s %s %s %d%%Z)", CoqStr(ty), len(payload), treeTerm,
			CoqBool(o.panicked), CoqBool(o.err), CoqBool(o.changed), o.sends)
		shown := string(payload)
		if len(shown) > 300 {
			shown = shown[:300] + fmt.Sprintf("...(%d bytes)", len(payload))
		}
		res := "nil"
		switch {
		case o.panicked:
			res = "PANIC"
		case o.err:
			res = "err"
		}
		cf.Add(term, fmt.Sprintf("recv|%s|%s", ty, payload), kind != "wellformed", "recv:"+kind+":"+res,
			map[string]interface{}{"fn": "OnMessageReceived", "type_string": ty, "payload": shown, "payload_len": len(payload), "peer": peer,
				"panic": o.panicked, "err": o.err, "state_changed": o.changed, "messages_sent": o.sends, "kind": kind})
	}
	return cf.Write(*out, 200, map[string]interface{}{"seed": *seed})
}

func PickNode(r *Rng) *jnode {
	switch r.Intn(6) {
	case 0:
		return jNull()
	case 1:
		return jNum(PickS(r, c21NumLits))
	case 2:
		return jStr(PickS(r, c21Strings))
	case 3:
		return jArr(jNull())
	case 4:
		return jBool(false)
	default:
		return &jnode{kind: "obj"}
	}
}

var _ = context.Background
