package main

// Scenario generator: a simulated peer + environment drive one swap of a random
// role through mostly-valid flows with deviations, failure injections and
// restarts.

import (
	"encoding/json"
	"errors"
	"fmt"
	"strings"
	"time"

	"github.com/btcsuite/btcd/btcec/v2"
	"github.com/elementsproject/peerswap/messages"
	"github.com/elementsproject/peerswap/onchain"
	"github.com/elementsproject/peerswap/swap"
	"go.etcd.io/bbolt"
)

const lbtcAssetHex = "5ac9f65c0efcc4775e0baec4ec03abdde22473cd3cf33c0419ca290e0751b225aa"

func newEnv(r *Rng) *Env {
	return &Env{
		r: r, SwapsAllowed: true, LiquidEnabled: true, BitcoinEnabled: true, MinAmountMsat: 100000 * 1000,
		PeerAllowed: true, PeerSuspicious: false, BtcNetwork: "regtest", LbtcAsset: lbtcAssetHex,
		CsvBtc: onchain.BitcoinCsv, CsvLbtc: onchain.LiquidCsv, CurHeight: 1000 + uint32(r.Intn(5000)), Decode: map[string]DecodeRes{},
	}
}

func (sc *Scen) restartNode() error {
	n, err := newNode(sc.env, sc.node.db)
	if err != nil {
		return err
	}
	sc.node = n
	sc.held = nil
	return nil
}

// failure injection: each listed kind fails with small probability on its first call
func (sc *Scen) randomPlan() Plan {
	r := sc.r
	var p Plan
	if op, ok := extPlan(sc); ok { // per-property plan override (fsm_ext.go)
		return op
	}
	if sc.clean || r.Chance(55) {
		return p // no failure injected in this step
	}
	if r.Chance(6) {
		p.Send = []bool{false}
	}
	if r.Chance(2) {
		p.Store = []bool{true, false}
	}
	if r.Chance(6) {
		p.Height = []*uint32{nil}
	}
	if r.Chance(5) {
		p.MkInvoice = []*string{nil}
	}
	if r.Chance(5) {
		p.FeeEst = []*uint64{nil}
	} else if r.Chance(5) {
		p.FeeEst = []*uint64{u64p(uint64(r.Intn(100)))}
	}
	if r.Chance(5) {
		p.Balance = []*uint64{u64p(uint64(r.Intn(200000)))}
	} else if r.Chance(3) {
		p.Balance = []*uint64{nil}
	}
	if r.Chance(5) {
		p.Spendable = []*uint64{u64p(uint64(r.Intn(1000)))}
	} else if r.Chance(3) {
		p.Spendable = []*uint64{nil}
	}
	if r.Chance(5) {
		p.Probe = []*bool{boolp(false)}
	} else if r.Chance(3) {
		p.Probe = []*bool{nil}
	}
	if r.Chance(6) {
		p.CreateOpening = []*OpeningRes{nil}
	}
	if r.Chance(8) {
		p.Spend = []*string{nil}
	}
	if r.Chance(4) {
		p.Script = []bool{false}
	}
	if r.Chance(8) {
		p.Validate = []*bool{boolp(false)}
	} else if r.Chance(4) {
		p.Validate = []*bool{nil}
	}
	if r.Chance(4) {
		p.AddSender = []bool{false}
	}
	if r.Chance(10) {
		p.AddSusp = []bool{false}
	}
	if r.Chance(6) {
		p.PayFee = []*string{nil}
	}
	if r.Chance(8) {
		p.RecoverPay = []*string{nil}
	}
	if m := sc.current(); m != nil && m.Data.StartingBlockHeight > 0 && r.Chance(25) {
		// first attempt fails inside the window, the tip then sits exactly on a boundary
		a := m.Data.StartingBlockHeight
		win := uint32(504)
		if sc.chain == "lbtc" {
			win = 60
		}
		b := a + win - 1 + uint32(r.Intn(3))
		p.Pay = []*string{nil}
		// (a third answer for code that polls the height once more before or between the attempts)
		p.Height = []*uint32{u32p(a + win - 1), u32p(b), u32p(b + uint32(r.Intn(2)))}
		return p
	}
	switch r.Intn(12) {
	case 0:
		p.Pay = []*string{nil} // one failure, then success
	case 1:
		p.Pay = []*string{nil, nil}
		p.PayLimit = 2 // all attempts fail until the loop times out
	case 2:
		p.Pay = []*string{nil}
		p.PayLimit = 1
	}
	return p
}

func (sc *Scen) ident() string { return sc.id.String() }

// deviations are switched off in directed (scripted) scenarios
func (sc *Scen) dev(p int) bool { return !sc.clean && sc.r.Chance(p) }
func (sc *Scen) devCase(n int) int {
	if sc.clean {
		return -1
	}
	return sc.r.Intn(n)
}

// directed scenarios: run first, before the random ones (the corpus of shapes that matter)
type directed struct {
	role, chain string
	steps       []string
}

// registerDirected lets per-property files add their own scripted scenarios (init-time)
func registerDirected(ds ...directed) { directedScenarios = append(directedScenarios, ds...) }

var directedScenarios = []directed{
	{"out_sender", "btc", []string{"start", "out_agreement", "otb", "tx_confirmed", "restart"}},
	{"out_sender", "lbtc", []string{"start", "out_agreement", "otb", "tx_confirmed"}},
	{"in_receiver", "btc", []string{"request", "otb", "tx_confirmed"}},
	{"in_receiver", "lbtc", []string{"request", "otb", "tx_confirmed", "timeout"}},
	{"out_receiver", "btc", []string{"request", "paid_fee", "paid_claim"}},
	{"out_receiver", "lbtc", []string{"request", "paid_fee", "csv"}},
	{"in_sender", "btc", []string{"start", "in_agreement", "coop"}},
	{"in_sender", "lbtc", []string{"start", "in_agreement", "cancel", "csv"}},
	// payment window boundaries (Liquid 60, Bitcoin 504) at the time of the payment
	{"out_sender", "lbtc", []string{"start", "out_agreement", "otb", "tip=anchor+59", "tx_confirmed"}},
	{"out_sender", "lbtc", []string{"start", "out_agreement", "otb", "tip=anchor+60", "tx_confirmed"}},
	{"in_receiver", "lbtc", []string{"request", "otb", "tip=anchor+60", "tx_confirmed"}},
	{"in_receiver", "lbtc", []string{"request", "tip=anchor+59", "otb", "tx_confirmed"}},
	{"in_receiver", "lbtc", []string{"request", "tip=anchor+60", "otb"}},
	{"in_receiver", "lbtc", []string{"request", "tip=anchor-1", "otb"}},
	{"out_sender", "btc", []string{"start", "out_agreement", "otb", "tip=anchor+504", "tx_confirmed"}},
	{"out_sender", "btc", []string{"start", "out_agreement", "otb", "tip=anchor+505", "tx_confirmed"}},
	{"in_receiver", "btc", []string{"request", "tip=anchor+503", "otb", "tx_confirmed"}},
	{"in_receiver", "btc", []string{"request", "tip=anchor+504", "otb"}},
	// a peer answering with the agreement type of the other swap direction
	{"out_sender", "btc", []string{"start", "in_agreement", "out_agreement"}},
	{"in_sender", "btc", []string{"start", "out_agreement", "in_agreement"}},
	// timeouts at later points
	{"out_sender", "lbtc", []string{"start", "out_agreement", "otb", "tx_confirmed", "timeout"}},
	{"out_sender", "btc", []string{"start", "out_agreement", "timeout", "otb"}},
	{"out_receiver", "btc", []string{"request", "timeout", "paid_fee"}},
	{"in_sender", "btc", []string{"start", "restart", "in_agreement"}},
	{"out_sender", "btc", []string{"start", "restart"}},
	{"in_receiver", "lbtc", []string{"request", "restart", "otb"}},
	{"out_receiver", "lbtc", []string{"request", "paid_fee", "restart", "csv"}},
	{"in_sender", "lbtc", []string{"start", "in_agreement", "restart", "paid_claim"}},
	{"out_sender", "lbtc", []string{"start", "out_agreement", "otb", "restart", "tx_confirmed"}},
	{"in_receiver", "btc", []string{"request", "otb", "cancel", "restart"}},
	{"out_receiver", "btc", []string{"request", "paid_fee", "cancel", "coop", "csv"}},
	{"in_sender", "btc", []string{"start", "in_agreement", "duplicate", "otb", "paid_fee", "tx_confirmed", "csv"}},
}

func (sc *Scen) stepNamed(n string) {
	if extStep(sc, n) { // per-property step names (fsm_ext.go)
		return
	}
	// steps registered with registerStep (fsm_ext_f1.go); additive hook
	if runExtStep(sc, n) {
		return
	}
	// "tip=anchor+N": set the chain tip relative to the swap's persisted anchor / start height
	if strings.HasPrefix(n, "tip=anchor") {
		var off int64
		fmt.Sscanf(strings.TrimPrefix(n, "tip=anchor"), "%d", &off)
		if m := sc.current(); m != nil {
			sc.env.CurHeight = uint32(int64(m.Data.StartingBlockHeight) + off)
		}
		return
	}
	switch n {
	case "start":
		sc.stepStart()
	case "request":
		sc.stepRequest()
	case "out_agreement":
		sc.stepOutAgreement()
	case "in_agreement":
		sc.stepInAgreement()
	case "otb":
		sc.stepOtb()
	case "tx_confirmed":
		sc.stepTxConfirmed()
	case "paid_fee":
		sc.stepPaid(true)
	case "paid_claim":
		sc.stepPaid(false)
	case "csv":
		sc.stepCsv()
	case "coop":
		sc.stepCoopMsg()
	case "cancel":
		sc.stepCancelMsg()
	case "timeout":
		sc.stepTimeout()
	case "restart":
		sc.stepRestart()
	case "duplicate":
		sc.stepDuplicate()
	default:
		// additive: step kinds registered by per-property files (registerStepKind)
		for _, h := range extraStepKinds {
			if h(sc, n) {
				return
			}
		}
	}
}

// registerStepKind lets per-property files add directed step kinds (init-time); a handler returns true when it recognised the name
var extraStepKinds []func(sc *Scen, name string) bool

func registerStepKind(h func(sc *Scen, name string) bool) { extraStepKinds = append(extraStepKinds, h) }

func (sc *Scen) claimAmount() (amt uint64) {
	defer func() {
		if recover() != nil {
			amt = sc.amount
		}
	}()
	if sc.held != nil {
		return sc.held.Data.GetClaimAmount()
	}
	return sc.amount
}

// --- steps ---

func (sc *Scen) stepStart() {
	r := sc.r
	ppm := int64(r.Range(0, 50000))
	if sc.dev(10) {
		ppm = -1000
	}
	var created *swap.SwapStateMachine
	call := func() error {
		var err error
		if sc.role == "out_sender" {
			created, err = sc.node.svc.SwapOut(sc.peer, sc.chain, sc.scid, sc.self, sc.amount, ppm)
		} else {
			created, err = sc.node.svc.SwapIn(sc.peer, sc.chain, sc.scid, sc.self, sc.amount, ppm)
		}
		if created != nil {
			sc.id = created.SwapId
		}
		return err
	}
	// the id is only known after the call: find it through the active set / returned machine
	wrapped := func() error {
		err := call()
		if sc.id == nil {
			ids := sc.node.svc.VerifActiveIds()
			if len(ids) == 1 {
				if m := sc.node.svc.VerifActiveSwap(ids[0]); m != nil {
					sc.id = m.SwapId
				}
			}
		}
		return err
	}
	input := func(post *swap.SwapStateMachine) string {
		if sc.role == "out_sender" {
			if post.Data.SwapOutRequest == nil {
				return "InEvent \"Event_OnSwapOutStarted\" None"
			}
			return "InEvent \"Event_OnSwapOutStarted\" (Some (MOutReq " + coqOutReq(post.Data.SwapOutRequest) + "))"
		}
		if post.Data.SwapInRequest == nil {
			return "InEvent \"Event_SwapInSender_OnSwapInRequested\" None"
		}
		return "InEvent \"Event_SwapInSender_OnSwapInRequested\" (Some (MInReq " + coqInReq(post.Data.SwapInRequest) + "))"
	}
	sc.doStep(stepSpec{kind: "start", input: input, plan: sc.randomPlan(), precheck: []string{"Spendable", "Probe", "Balance", "FeeEst"},
		fresh: true, wantErr: true, call: wrapped})
}

func (sc *Scen) network() (asset, network string) {
	if sc.chain == "lbtc" {
		return lbtcAssetHex, ""
	}
	return "", "regtest"
}

func (sc *Scen) stepRequest() {
	r := sc.r
	sc.id = swap.NewSwapId()
	asset, network := sc.network()
	version := sc.version
	scid := sc.scid
	pub := sc.peerPub()
	limit := int64(r.Range(20000, 1000000))
	// deviations in the request itself
	switch sc.devCase(14) {
	case 0:
		version = uint8(r.Intn(10))
	case 1:
		scid = PickS(r, []string{"1x2", "axbxc", "1:2:3", "1x2x", "", "1x2x3x4", "5x6x-7"})
	case 2:
		pub = PickS(r, []string{"", "zz", pub[:64], pub + "00"})
	case 3:
		asset, network = PickS(r, []string{"", lbtcAssetHex, "00", lbtcAssetHex[:64]}), PickS(r, []string{"", "regtest", "mainnet", "bitcoin", "signet"})
	case 4:
		sc.amount = PickU(r, []uint64{0, 1, 99999, 100000, 100001})
	}
	if sc.role == "out_receiver" {
		msg := &swap.SwapOutRequestMessage{ProtocolVersion: version, SwapId: sc.id, Asset: asset, Network: network, Scid: scid, Amount: sc.amount, Pubkey: pub, PremiumLimit: limit}
		sc.doStep(stepSpec{kind: "request_out", plan: sc.randomPlan(), fresh: true, wantErr: true,
			input: func(post *swap.SwapStateMachine) string {
				return "InEvent \"Event_OnSwapOutRequestReceived\" (Some (MOutReq " + coqOutReq(msg) + "))"
			},
			call: sc.deliver(msg, messages.MESSAGETYPE_SWAPOUTREQUEST)})
	} else {
		msg := &swap.SwapInRequestMessage{ProtocolVersion: version, SwapId: sc.id, Asset: asset, Network: network, Scid: scid, Amount: sc.amount, Pubkey: pub, PremiumLimit: limit}
		sc.doStep(stepSpec{kind: "request_in", plan: sc.randomPlan(), fresh: true, wantErr: true, precheck: []string{"Spendable", "Probe"},
			input: func(post *swap.SwapStateMachine) string { return "InRequestIn " + coqInReq(msg) },
			call:  sc.deliver(msg, messages.MESSAGETYPE_SWAPINREQUEST)})
	}
}

func (sc *Scen) peerPub() string {
	return fmt.Sprintf("%x", sc.peerKey.PubKey().SerializeCompressed())
}

func (sc *Scen) deliver(msg interface{}, t messages.MessageType) func() error {
	payload, _ := json.Marshal(msg)
	sc.lastPeerMsg, sc.lastPeerType = payload, t
	return func() error { return sc.node.msgr.handler(sc.peer, hexType(t), payload) }
}

func (sc *Scen) stepPeerMsg(kind string, ev string, msg interface{}, t messages.MessageType, term string) {
	sc.doStep(stepSpec{kind: kind, plan: sc.randomPlan(), wantErr: true,
		input: func(post *swap.SwapStateMachine) string { return fmt.Sprintf("InEvent %s (Some %s)", CoqStr(ev), term) },
		call:  sc.deliver(msg, t)})
}

func (sc *Scen) stepOutAgreement() {
	r := sc.r
	fee := uint64(r.Range(100, 900))
	if sc.dev(15) {
		fee = uint64(r.Range(901, 5000)) // above 3x the default estimate of 300
	}
	payreq := sc.env.fresh("lnfee")
	if !sc.dev(5) {
		sc.env.Decode[payreq] = DecodeRes{Hash: randHex(r, 32), Msat: fee * 1000, Cltv: 18}
	}
	prem := int64(r.Range(-2000, 3000))
	switch sc.devCase(10) {
	case 0:
		prem = 1 << 40
	case 1:
		prem = -int64(sc.amount) - 5
	}
	pub := sc.peerPub()
	if sc.dev(5) {
		pub = "nothex"
	}
	msg := &swap.SwapOutAgreementMessage{ProtocolVersion: sc.version, SwapId: sc.id, Pubkey: pub, Payreq: payreq, Premium: prem}
	sc.stepPeerMsg("out_agreement", "Event_OnFeeInvoiceReceived", msg, messages.MESSAGETYPE_SWAPOUTAGREEMENT, "(MOutAgr "+coqOutAgr(msg)+")")
}

func (sc *Scen) stepInAgreement() {
	r := sc.r
	prem := int64(r.Range(-2000, 3000))
	if sc.dev(10) {
		prem = 1 << 40
	}
	pub := sc.peerPub()
	if sc.dev(5) {
		pub = pub[:20]
	}
	msg := &swap.SwapInAgreementMessage{ProtocolVersion: sc.version, SwapId: sc.id, Pubkey: pub, Premium: prem}
	sc.stepPeerMsg("in_agreement", "Event_SwapInSender_OnAgreementReceived", msg, messages.MESSAGETYPE_SWAPINAGREEMENT, "(MInAgr "+coqInAgr(msg)+")")
}

func (sc *Scen) policyFinalCltv() int64 {
	if sc.chain == "lbtc" {
		return 29
	}
	return 503
}

func (sc *Scen) stepOtb() {
	r := sc.r
	claim := sc.claimAmount()
	msat := claim * 1000
	cltv := sc.policyFinalCltv()
	switch sc.devCase(12) {
	case 0:
		msat++
	case 1:
		msat--
	case 2:
		cltv++
	case 3:
		// (never negative: both back-ends decode min_final_cltv_expiry as an unsigned number)
		cltv = PickI(r, []int64{0, 1, 504, 505, 30, 1008, 1 << 40})
	case 4:
		msat = 0
	}
	payreq := sc.env.fresh("lnclaim")
	if !sc.dev(4) {
		sc.env.Decode[payreq] = DecodeRes{Hash: randHex(r, 32), Msat: msat, Cltv: cltv}
	}
	txid := randHex(r, 32)
	if sc.dev(4) {
		txid = txid[:30]
	}
	bk := ""
	if sc.chain == "lbtc" {
		bk = randHex(r, 32)
		if sc.dev(6) {
			bk = PickS(r, []string{"", "00", bk + "11"})
		}
	} else if sc.dev(5) {
		bk = randHex(r, 32)
	}
	msg := &swap.OpeningTxBroadcastedMessage{SwapId: sc.id, Payreq: payreq, TxId: txid, ScriptOut: uint32(r.Intn(3)), BlindingKey: bk}
	sc.stepPeerMsg("otb", "Event_OnTxOpenedMessage", msg, messages.MESSAGETYPE_OPENINGTXBROADCASTED, "(MOtb "+coqOtb(msg)+")")
}

func (sc *Scen) stepCancelMsg() {
	msg := &swap.CancelMessage{SwapId: sc.id, Message: "peer cancels"}
	sc.stepPeerMsg("cancel", "Event_OnCancelReceived", msg, messages.MESSAGETYPE_CANCELED, "(MCancel "+coqCancel(msg)+")")
}

func (sc *Scen) stepCoopMsg() {
	r := sc.r
	pk := randHex(r, 32)
	if sc.dev(12) {
		pk = PickS(r, []string{"", "zz" + pk[2:], pk[:62], pk + "00"})
	}
	msg := &swap.CoopCloseMessage{SwapId: sc.id, Message: "coop", Privkey: pk}
	sc.stepPeerMsg("coop", "Event_OnCoopCloseReceived", msg, messages.MESSAGETYPE_COOPCLOSE, "(MCoop "+coqCoop(msg)+")")
}

func (sc *Scen) stepPaid(fee bool) {
	ev, it, kind := "Event_OnClaimInvoicePaid", swap.INVOICE_CLAIM, "paid_claim"
	if fee {
		ev, it, kind = "Event_OnFeeInvoicePaid", swap.INVOICE_FEE, "paid_fee"
	}
	sc.doStep(stepSpec{kind: kind, plan: sc.randomPlan(),
		input: func(post *swap.SwapStateMachine) string { return fmt.Sprintf("InEvent %s None", CoqStr(ev)) },
		call:  func() error { sc.node.svc.OnPayment(sc.ident(), it); return nil }})
}

func (sc *Scen) stepTxConfirmed() {
	r := sc.r
	hexs := "0200" + randHex(r, 16)
	withErr := sc.dev(12)
	sc.doStep(stepSpec{kind: fmt.Sprintf("tx_confirmed(err=%v)", withErr), plan: sc.randomPlan(),
		input: func(post *swap.SwapStateMachine) string {
			return fmt.Sprintf("InTxConfirmed %s %s", CoqStr(hexs), CoqBool(withErr))
		},
		call: func() error {
			var e error
			if withErr {
				e = errors.New("watcher: payment window closed")
			}
			return sc.node.svc.OnTxConfirmed(sc.ident(), hexs, e)
		}})
}

func (sc *Scen) stepCsv() {
	sc.doStep(stepSpec{kind: "csv_passed", plan: sc.randomPlan(),
		input: func(post *swap.SwapStateMachine) string { return "InCsvPassed" },
		call:  func() error { return sc.node.svc.OnCsvPassed(sc.ident()) }})
}

func (sc *Scen) stepTimeout() {
	sc.doStep(stepSpec{kind: "timeout", plan: sc.randomPlan(),
		input: func(post *swap.SwapStateMachine) string { return "InTimeout" },
		call:  func() error { sc.node.to.Fire(sc.ident()); return nil }})
}

func (sc *Scen) stepRestart() {
	sc.doStep(stepSpec{kind: "restart", plan: sc.randomPlan(), restart: true,
		input: func(post *swap.SwapStateMachine) string { return "InRecover" },
		call: func() error {
			if err := sc.restartNode(); err != nil {
				return err
			}
			return sc.node.svc.RecoverSwaps()
		}})
}

func (sc *Scen) stepDuplicate() {
	if sc.lastPeerMsg == nil {
		return
	}
	payload, t := sc.lastPeerMsg, sc.lastPeerType
	ev := map[messages.MessageType]string{
		messages.MESSAGETYPE_SWAPOUTAGREEMENT: "Event_OnFeeInvoiceReceived", messages.MESSAGETYPE_SWAPINAGREEMENT: "Event_SwapInSender_OnAgreementReceived",
		messages.MESSAGETYPE_OPENINGTXBROADCASTED: "Event_OnTxOpenedMessage", messages.MESSAGETYPE_CANCELED: "Event_OnCancelReceived",
		messages.MESSAGETYPE_COOPCLOSE: "Event_OnCoopCloseReceived"}[t]
	if ev == "" {
		return // duplicated requests are a service-level matter (C09)
	}
	term := coqWire(payload, int(t))
	sc.doStep(stepSpec{kind: "duplicate", plan: sc.randomPlan(), wantErr: true,
		input: func(post *swap.SwapStateMachine) string { return fmt.Sprintf("InEvent %s (Some %s)", CoqStr(ev), term) },
		call:  func() error { return sc.node.msgr.handler(sc.peer, hexType(t), payload) }})
}

// expected next input for the state the real machine is in
func (sc *Scen) stepExpected(state string) bool {
	r := sc.r
	switch state {
	case "State_SwapOutSender_AwaitAgreement":
		sc.stepOutAgreement()
	case "State_SwapInSender_AwaitAgreement":
		sc.stepInAgreement()
	case "State_SwapOutSender_AwaitTxBroadcastedMessage", "State_SwapInReceiver_AwaitTxBroadcastedMessage":
		sc.stepOtb()
	case "State_SwapOutSender_AwaitTxConfirmation", "State_SwapInReceiver_AwaitTxConfirmation":
		sc.stepTxConfirmed()
	case "State_SwapOutReceiver_AwaitFeeInvoicePayment":
		sc.stepPaid(true)
	case "State_SwapOutReceiver_AwaitClaimInvoicePayment", "State_SwapInSender_AwaitClaimPayment":
		switch r.Intn(5) {
		case 0:
			sc.stepCsv()
		case 1:
			sc.stepCoopMsg()
		case 2:
			sc.stepCancelMsg()
		default:
			sc.stepPaid(false)
		}
	case "State_WaitCsv":
		if r.Chance(70) {
			sc.stepCsv()
		} else {
			sc.stepCoopMsg()
		}
	default:
		return false
	}
	return true
}

func (sc *Scen) stepRandom() {
	switch sc.r.Intn(11) {
	case 0:
		sc.stepCancelMsg()
	case 1:
		sc.stepCoopMsg()
	case 2:
		sc.stepTimeout()
	case 3:
		sc.stepCsv()
	case 4:
		sc.stepPaid(false)
	case 5:
		sc.stepPaid(true)
	case 6:
		sc.stepTxConfirmed()
	case 7:
		sc.stepDuplicate()
	case 8:
		sc.stepOtb()
	case 9:
		sc.stepRestart()
	case 10:
		// either agreement type, whatever the role (a peer may send the "wrong" one)
		if sc.r.Chance(50) {
			sc.stepOutAgreement()
		} else {
			sc.stepInAgreement()
		}
	}
}

func (sc *Scen) advanceChain() {
	r := sc.r
	// boundary-directed: put the tip exactly around the payment window of the swap's anchor
	if m := sc.current(); m != nil && m.Data.StartingBlockHeight > 0 && r.Chance(40) {
		a := m.Data.StartingBlockHeight
		win := uint32(504)
		if sc.chain == "lbtc" {
			win = PickU32(r, []uint32{60, 30})
		}
		off := PickI(r, []int64{-1, 0, 1, int64(win) - 1, int64(win), int64(win) + 1})
		h := int64(a) + off
		if h < 0 {
			h = 0
		}
		sc.env.CurHeight = uint32(h)
		return
	}
	switch r.Intn(10) {
	case 0:
		sc.env.CurHeight += uint32(r.Range(25, 70)) // around the Liquid window
	case 1:
		sc.env.CurHeight += uint32(r.Range(480, 520)) // around the Bitcoin window
	case 2:
		sc.env.CurHeight += 20000
	case 3, 4, 5:
		sc.env.CurHeight += uint32(r.Range(0, 3))
	}
}

func PickU32(r *Rng, xs []uint32) uint32 { return xs[r.Intn(len(xs))] }

func runScenario(seed uint64, idx int, dbpath string, focus string) (sc *Scen, err error) {
	r := NewRng(seed)
	env := newEnv(r)
	db, err := bbolt.Open(dbpath, 0o600, &bbolt.Options{Timeout: 2 * time.Second, NoSync: true})
	if err != nil {
		return nil, err
	}
	defer db.Close()
	// occasional restrictive configuration
	switch r.Intn(16) {
	case 0:
		env.SwapsAllowed = false
	case 1:
		env.PeerAllowed = false
	case 2:
		env.PeerSuspicious = true
	case 3:
		env.LiquidEnabled = false
	case 4:
		env.BitcoinEnabled = false
	case 5:
		env.MinAmountMsat = 5_000_000_000
	}
	if idx < len(directedScenarios) {
		env.SwapsAllowed, env.PeerAllowed, env.PeerSuspicious, env.LiquidEnabled, env.BitcoinEnabled, env.MinAmountMsat = true, true, false, true, true, 100000*1000
	}
	node, err := newNode(env, db)
	if err != nil {
		return nil, err
	}
	pk, _ := btcec.NewPrivateKey()
	sc = &Scen{r: r, env: env, node: node, peerKey: pk,
		role:    []string{"out_sender", "out_receiver", "in_sender", "in_receiver"}[idx%4],
		chain:   []string{"btc", "lbtc"}[(idx/4)%2],
		version: 7,
		peer:    "02" + randHex(r, 32), self: "03" + randHex(r, 32),
		scid:   fmt.Sprintf("%dx%dx%d", r.Range(100, 900000), r.Range(1, 3000), r.Range(0, 5)),
		amount: uint64(r.Range(100000, 5000000)),
	}
	if r.Chance(15) {
		sc.scid = fmt.Sprintf("%d:%d:%d", r.Range(100, 900000), r.Range(1, 3000), r.Range(0, 5))
	}
	if idx < len(directedScenarios) {
		d := directedScenarios[idx]
		sc.role, sc.chain, sc.clean = d.role, d.chain, true
		env.SwapsAllowed, env.PeerAllowed, env.PeerSuspicious, env.LiquidEnabled, env.BitcoinEnabled, env.MinAmountMsat = true, true, false, true, true, 100000*1000
		for _, st := range d.steps {
			base := st[strings.LastIndex(st, ":")+1:] // "height=fail:start" creates the swap like "start"
			if base != "start" && base != "request" && sc.id == nil && !extStepRunsFresh(st) && !isFreshExtraStep(st) {
				break
			}
			sc.stepNamed(st)
		}
		runScenarioTail(sc, focus)
		return sc, nil
	}
	// generator focus registered by per-property files (registerFocus in fsm_ext.go); additive hook
	applyFocus(sc, focus, idx)
	if sc.role == "out_sender" || sc.role == "in_sender" {
		sc.stepStart()
	} else {
		sc.stepRequest()
	}
	if sc.id == nil {
		return sc, nil
	}
	defer runScenarioTail(sc, focus)
	for i := 0; i < 10; i++ {
		sc.advanceChain()
		m := sc.current()
		if m == nil {
			// finished or removed: at most one stray input, then stop
			if r.Chance(40) {
				if r.Chance(50) {
					sc.stepRestart()
				} else {
					sc.stepRandom()
				}
			}
			break
		}
		if r.Chance(72) && sc.stepExpected(string(m.Current)) {
			continue
		}
		sc.stepRandom()
	}
	return sc, nil
}
