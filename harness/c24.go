package main

// C24 — swap payments are a single HTLC over the swap channel to the swap peer.
// Runs the REAL clightning / lnd payment code of peerswap:
//   * buildDirectClaimRoute / buildDirectClaimPaymentRequest through verif hooks,
//   * ClightningClient.PayInvoiceViaChannel / RebalancePayment against a fake lightningd
//     (a JSON-RPC server on a unix socket under the -out dir),
//   * lnd Client.PayInvoiceViaChannel / RebalancePayment against fake lnrpc / routerrpc clients.

import (
	"bufio"
	"context"
	"encoding/json"
	"errors"
	"flag"
	"fmt"
	"net"
	"os"
	"path/filepath"
	"strings"
	"sync"

	"github.com/elementsproject/glightning/glightning"
	"github.com/elementsproject/peerswap/clightning"
	"github.com/elementsproject/peerswap/lightning"
	pslnd "github.com/elementsproject/peerswap/lnd"
	"github.com/lightningnetwork/lnd/lnrpc"
	"github.com/lightningnetwork/lnd/lnrpc/routerrpc"
	"google.golang.org/grpc"
)

func init() {
	registerDump("ConstsC24.v", func() (string, error) {
		var b strings.Builder
		b.WriteString("From Coq Require Import ZArith String.\nOpen Scope Z_scope.\n")
		fmt.Fprintf(&b, "Definition lnd_block_padding : Z := %d.\n", int64(pslnd.VerifBlockPadding))
		// the two spellings as produced by the code for a marker id
		fmt.Fprintf(&b, "Definition scid_marker_cln : string := %s.\n", CoqStr(lightning.Scid("1:2:3").ClnStyle()))
		fmt.Fprintf(&b, "Definition scid_marker_lnd : string := %s.\n", CoqStr(lightning.Scid("1x2x3").LndStyle()))
		return b.String(), nil
	})
	register("c24", "payment route / request correspondence cases (CLN + LND)", runC24)
}

// ---------------------------------------------------------------- fake lightningd

type fakeCln struct {
	mu sync.Mutex
	// per-case configuration
	decodeMode int                    // 0 decode ok, 1 decode errors + decodepay ok, 2 both error, 3 valid=false, 4 other type
	invoice    map[string]interface{} // fields of the decoded invoice
	// per-case observation
	sendpays []map[string]json.RawMessage
	invoices []map[string]json.RawMessage // params of `invoice` calls (psh invoice)
	peerChans []map[string]interface{}    // answer of `listpeerchannels` (psh scidres)
	ln       net.Listener
}

func (f *fakeCln) serve(conn net.Conn) {
	defer conn.Close()
	dec := json.NewDecoder(bufio.NewReader(conn))
	for {
		var req struct {
			Id     json.RawMessage            `json:"id"`
			Method string                     `json:"method"`
			Params map[string]json.RawMessage `json:"params"`
		}
		if err := dec.Decode(&req); err != nil {
			return
		}
		f.mu.Lock()
		var result interface{}
		var rpcErr map[string]interface{}
		switch req.Method {
		case "decode":
			switch f.decodeMode {
			case 0:
				m := map[string]interface{}{"type": "bolt11 invoice", "valid": true}
				for k, v := range f.invoice {
					m[k] = v
				}
				result = m
			case 3:
				result = map[string]interface{}{"type": "bolt11 invoice", "valid": false}
			case 4:
				result = map[string]interface{}{"type": "bolt12 offer", "valid": true}
			default:
				rpcErr = map[string]interface{}{"code": -32601, "message": "Unknown command 'decode'"}
			}
		case "decodepay":
			if f.decodeMode == 1 {
				result = f.invoice
			} else {
				rpcErr = map[string]interface{}{"code": -32602, "message": "Invalid bolt11"}
			}
		case "invoice":
			f.invoices = append(f.invoices, req.Params)
			result = map[string]interface{}{"bolt11": "lnbcrt1fakeinvoice", "payment_hash": strings.Repeat("ab", 32), "payment_secret": strings.Repeat("cd", 32), "expires_at": 1}
		case "sendpay":
			f.sendpays = append(f.sendpays, req.Params)
			result = map[string]interface{}{"message": "Monitor status with listpays or waitsendpay", "status": "pending", "id": 1}
		case "listpeerchannels":
			result = map[string]interface{}{"channels": f.peerChans}
		case "waitsendpay":
			result = map[string]interface{}{"status": "complete", "payment_preimage": strings.Repeat("ab", 32), "id": 1}
		default:
			rpcErr = map[string]interface{}{"code": -32601, "message": "Unknown command"}
		}
		f.mu.Unlock()
		resp := map[string]interface{}{"jsonrpc": "2.0", "id": req.Id}
		if rpcErr != nil {
			resp["error"] = rpcErr
		} else {
			resp["result"] = result
		}
		out, _ := json.Marshal(resp)
		if _, err := conn.Write(append(out, '\n', '\n')); err != nil {
			return
		}
	}
}

func startFakeCln(dir string) (*fakeCln, error) {
	path := filepath.Join(dir, "lightning-rpc")
	os.Remove(path)
	ln, err := net.Listen("unix", path)
	if err != nil {
		return nil, err
	}
	f := &fakeCln{ln: ln}
	go func() {
		for {
			c, err := ln.Accept()
			if err != nil {
				return
			}
			go f.serve(c)
		}
	}()
	return f, nil
}

// ---------------------------------------------------------------- fake lnd

func (f *fakeLnd) AddInvoice(ctx context.Context, in *lnrpc.Invoice, opts ...grpc.CallOption) (*lnrpc.AddInvoiceResponse, error) {
	f.addInvoices = append(f.addInvoices, in)
	return &lnrpc.AddInvoiceResponse{PaymentRequest: "lnbcrt1fakeinvoice"}, nil
}

type fakeLnd struct {
	addInvoices           []*lnrpc.Invoice
	lnrpc.LightningClient // nil: any other RPC would panic (none is used on this path)
	decoded               *lnrpc.PayReq
	decodeErr             error
	chans                 []*lnrpc.Channel
	chansErr              error
	activeOnly            []bool
}

func (f *fakeLnd) DecodePayReq(ctx context.Context, in *lnrpc.PayReqString, opts ...grpc.CallOption) (*lnrpc.PayReq, error) {
	if f.decodeErr != nil {
		return nil, f.decodeErr
	}
	return f.decoded, nil
}

func (f *fakeLnd) ListChannels(ctx context.Context, in *lnrpc.ListChannelsRequest, opts ...grpc.CallOption) (*lnrpc.ListChannelsResponse, error) {
	f.activeOnly = append(f.activeOnly, in.ActiveOnly)
	if f.chansErr != nil {
		return nil, f.chansErr
	}
	return &lnrpc.ListChannelsResponse{Channels: f.chans}, nil
}

type fakeRouter struct {
	routerrpc.RouterClient
	sent []*routerrpc.SendPaymentRequest
}

type fakePayStream struct {
	grpc.ClientStream
}

func (s *fakePayStream) Recv() (*lnrpc.Payment, error) {
	return &lnrpc.Payment{Status: lnrpc.Payment_SUCCEEDED, PaymentPreimage: strings.Repeat("cd", 32)}, nil
}

func (f *fakeRouter) SendPaymentV2(ctx context.Context, in *routerrpc.SendPaymentRequest, opts ...grpc.CallOption) (routerrpc.Router_SendPaymentV2Client, error) {
	f.sent = append(f.sent, in)
	return &fakePayStream{}, nil
}

// ---------------------------------------------------------------- generators

var c24Pubkeys = []string{
	"02aa0000000000000000000000000000000000000000000000000000000000000a",
	"03bb0000000000000000000000000000000000000000000000000000000000000b",
	"02AA0000000000000000000000000000000000000000000000000000000000000A",
	"02aa0000000000000000000000000000000000000000000000000000000000000b",
	"peer", "", "02aa",
}

var c24Limits = []int64{0, 0, 0, 1, 2, 3, 4, 32, 33, 144, 1008, 2016, 1<<31 - 3, 1<<31 - 2, 1<<31 - 1, 1 << 31, 1<<32 - 5, 1<<32 - 2, 1<<32 - 1}
var c24Cltvs = []int64{-1 << 63, -1<<63 + 1, -1 << 32, -5, -4, -3, -2, -1, 0, 1, 2, 8, 9, 18, 28, 29, 30, 31, 32, 33, 143, 144, 1<<31 - 6, 1<<31 - 5, 1<<31 - 4, 1<<31 - 3, 1<<31 - 2, 1<<31 - 1, 1 << 31,
	1<<32 - 6, 1<<32 - 5, 1<<32 - 4, 1<<32 - 3, 1<<32 - 2, 1<<32 - 1, 1 << 32, 1<<32 + 1, 1<<33 - 4, 1<<63 - 5, 1<<63 - 4, 1<<63 - 2, 1<<63 - 1}
var c24Msats = []uint64{0, 1, 999, 1000, 1001, 1_000_000, 100_000_000_000, 1<<32 - 1, 1 << 32, 1<<63 - 1, 1 << 63, 1<<64 - 1}

func genLimit(r *Rng) uint32 {
	if r.Chance(70) {
		return uint32(PickI(r, c24Limits))
	}
	return uint32(r.Range(1, 3000))
}

// a CLTV delta that is interesting relative to the limit
func genCltv(r *Rng, limit uint32, pad int64) int64 {
	switch r.Intn(10) {
	case 0, 1, 2:
		return PickI(r, c24Cltvs)
	case 3, 4, 5, 6:
		return int64(limit) - pad - 2 + r.Range(0, 4) // around limit-pad (LND) / limit-1 (CLN when pad=1)
	default:
		return r.Range(0, 300)
	}
}

func genMsat(r *Rng) uint64 {
	if r.Chance(50) {
		return PickU(r, c24Msats)
	}
	return uint64(r.Range(1, 5_000_000_000))
}

var scidAlphabet = []string{"0", "1", "7", "x", ":", "x", ":", "539268", "845", "16777215", "65535", "X", "-", " ", "\xc3\x97"}

func genFreeScid(r *Rng) string {
	switch r.Intn(8) {
	case 0:
		return PickS(r, []string{"", "x", ":", "xx", "::", "x:", "abc", "1x2", "1:2:3:4", "1x2x3x4", "0x0x0", "0:0:0", "1X2X3"})
	case 1, 2, 3:
		sep1, sep2 := PickS(r, []string{"x", ":"}), PickS(r, []string{"x", ":"})
		return fmt.Sprintf("%d%s%d%s%d", r.Range(0, 900000), sep1, r.Range(0, 5000), sep2, r.Range(0, 5))
	}
	n := 1 + r.Intn(7)
	var b strings.Builder
	for i := 0; i < n; i++ {
		b.WriteString(PickS(r, scidAlphabet))
	}
	return b.String()
}

var c24ChanIds = []uint64{0, 1, 65535, 65536, 1 << 16, 1<<40 - 1, 1 << 40, (539268 << 40) | (845 << 16) | 1, (539268 << 40) | (845 << 16) | 2,
	(1 << 40) | (2 << 16) | 3, (700000 << 40) | (16777215 << 16) | 65535, 1<<63 - 1, 1 << 63, 1<<64 - 1, (16777215 << 40) | (1 << 16) | 0, (16777214 << 40) | 5}

func genChanId(r *Rng) uint64 {
	if r.Chance(50) {
		return PickU(r, c24ChanIds)
	}
	return (uint64(r.Range(1, 900000)) << 40) | (uint64(r.Range(0, 4000)) << 16) | uint64(r.Range(0, 3))
}

func lndSpell(id uint64, sep string) string {
	return fmt.Sprintf("%d%s%d%s%d", uint32(id>>40), sep, uint32(id>>16)&0xFFFFFF, sep, uint16(id))
}

// ---------------------------------------------------------------- Coq printers

func coqClnInvoice(payee string, msat uint64, mfc int64, hash string) string {
	return fmt.Sprintf("(mk_cln_invoice %s %s %s %s)", CoqStr(payee), CoqZu(msat), CoqZ(mfc), CoqStr(hash))
}

func coqHop(id, ch string, msat uint64, delay uint32, dir uint32) string {
	return fmt.Sprintf("(mk_cln_hop %s %s %s %s %s)", CoqStr(id), CoqStr(ch), CoqZu(msat), CoqZu(uint64(delay)), CoqZu(uint64(dir)))
}

func coqLndInvoice(p *lnrpc.PayReq) string {
	return fmt.Sprintf("(mk_lnd_invoice %s %s %s)", CoqStr(p.Destination), CoqZ(p.NumSatoshis), CoqZ(p.CltvExpiry))
}

func coqLndChan(c *lnrpc.Channel) string {
	return fmt.Sprintf("(mk_lnd_chan %s %s %s)", CoqZu(c.ChanId), CoqStr(c.RemotePubkey), CoqZ(c.LocalBalance))
}

func coqLndReq(q *routerrpc.SendPaymentRequest) string {
	ids := []string{}
	for _, id := range q.OutgoingChanIds {
		ids = append(ids, CoqZu(id))
	}
	if q.OutgoingChanId != 0 { // deprecated single-channel field: report it as an extra entry
		ids = append(ids, CoqZu(q.OutgoingChanId))
	}
	return fmt.Sprintf("(mk_lnd_req %s %s %s %s %s %s %s)", CoqStr(q.PaymentRequest), CoqZ(int64(q.CltvLimit)),
		CoqList(ids), CoqZu(uint64(q.MaxParts)), CoqZ(q.Amt), CoqZ(q.AmtMsat), CoqZ(int64(len(q.Dest))))
}

func jsLndReq(q *routerrpc.SendPaymentRequest) interface{} {
	if q == nil {
		return nil
	}
	return map[string]interface{}{"payment_request": q.PaymentRequest, "cltv_limit": q.CltvLimit, "outgoing_chan_ids": fmt.Sprint(q.OutgoingChanIds),
		"max_parts": q.MaxParts, "amt": q.Amt, "amt_msat": q.AmtMsat, "dest_len": len(q.Dest)}
}

// ---------------------------------------------------------------- the run

func runC24(args []string) error {
	fs := flag.NewFlagSet("c24", flag.ExitOnError)
	out := fs.String("out", "/verif/work/C24", "output dir")
	seed := fs.Uint64("seed", 1, "seed")
	n := fs.Int("n", 400, "cases per family")
	fs.Parse(args)
	r := NewRng(*seed)
	if err := os.MkdirAll(*out, 0o755); err != nil {
		return err
	}
	pad := int64(pslnd.VerifBlockPadding)

	cf := NewCaseFile("From PS Require Import Model.PayRoute Model.C24Corr.",
		"c24_case", "c24_check", "c24_monitor")

	// ---------- family 1: buildDirectClaimRoute directly
	for i := 0; i < *n; i++ {
		limit := genLimit(r)
		mfc := genCltv(r, limit, 1)
		payee, msat, hash := PickS(r, c24Pubkeys), genMsat(r), "h1"
		scid := genFreeScid(r)
		b := &glightning.DecodedBolt11{Payee: payee, AmountMsat: glightning.AmountFromMSat(msat), MinFinalCltvExpiry: int(mfc), PaymentHash: hash}
		route, err := clightning.VerifBuildDirectClaimRoute(b, scid, limit)
		obs := "None"
		kind := "clnroute:err"
		var jsRoute interface{}
		if err == nil {
			hops := []string{}
			jr := []interface{}{}
			for _, h := range route {
				hops = append(hops, coqHop(h.Id, h.ShortChannelId, h.AmountMsat.MSat(), h.Delay, h.Direction))
				jr = append(jr, map[string]interface{}{"id": h.Id, "channel": h.ShortChannelId, "amount_msat": h.AmountMsat.MSat(), "delay": h.Delay, "direction": h.Direction})
			}
			obs = "(Some " + CoqList(hops) + ")"
			jsRoute = jr
			kind = "clnroute:ok"
			if limit == 0 {
				kind = "clnroute:ok-legacy"
				if mfc < 0 || mfc >= 1<<32-1 {
					kind = "clnroute:ok-legacy-wrap"
				}
			}
		} else if mfc < 0 || mfc >= 1<<32-1 {
			kind = "clnroute:err-range"
		}
		term := fmt.Sprintf("CClnRoute %s %s %s %s", coqClnInvoice(payee, msat, mfc, hash), CoqStr(scid), CoqZu(uint64(limit)), obs)
		cf.Add(term, fmt.Sprintf("clnroute|%s|%d|%d|%s|%d", payee, msat, mfc, scid, limit), true, kind,
			map[string]interface{}{"fn": "buildDirectClaimRoute", "payee": payee, "amount_msat": msat, "min_final_cltv_expiry": mfc, "scid": scid,
				"limit": limit, "route": jsRoute, "err": err != nil})
	}

	// ---------- family 2: ClightningClient.PayInvoiceViaChannel / RebalancePayment over a fake lightningd
	fake, err := startFakeCln(*out)
	if err != nil {
		return fmt.Errorf("fake lightningd: %w", err)
	}
	defer fake.ln.Close()
	cl, err := clightning.VerifNewClientOnSocket(*out, "lightning-rpc")
	if err != nil {
		return err
	}
	for i := 0; i < *n; i++ {
		feePath := r.Chance(35) // PayInvoiceViaChannel (fee invoice), else RebalancePayment (claim)
		var limit uint32
		if !feePath {
			limit = genLimit(r)
		}
		mfc := genCltv(r, limit, 1)
		payee, msat := PickS(r, c24Pubkeys), genMsat(r)
		hash := PickS(r, []string{"00" + strings.Repeat("11", 31), strings.Repeat("fe", 32), "h"})
		payreq := PickS(r, []string{"lnbcrt1fee", "lnbcrt1claim", "lnbc1p" + strings.Repeat("q", 40), "x"})
		if r.Chance(3) {
			payreq = ""
		}
		scid := genFreeScid(r)
		mode := 0
		if r.Chance(30) {
			mode = r.Intn(5)
		}
		if mode == 0 && mfc < 0 {
			// decode carries an unsigned field; a negative Go int arises from values >= 2^63
		}
		inv := map[string]interface{}{"payee": payee, "amount_msat": msat, "payment_hash": hash, "payment_secret": "s", "currency": "bcrt"}
		if mode == 0 {
			inv["min_final_cltv_expiry"] = uint64(mfc)
		} else {
			inv["min_final_cltv_expiry"] = mfc
		}
		fake.mu.Lock()
		fake.decodeMode, fake.invoice, fake.sendpays = mode, inv, nil
		fake.mu.Unlock()

		var perr error
		if feePath {
			_, perr = cl.PayInvoiceViaChannel(payreq, scid)
		} else {
			_, perr = cl.RebalancePayment(payreq, scid, limit)
		}
		fake.mu.Lock()
		sends := fake.sendpays
		fake.mu.Unlock()

		decOK := (mode == 0 || mode == 1) && payreq != ""
		dec := CoqOpt(decOK, coqClnInvoice(payee, msat, mfc, hash))
		obs := "None"
		var jsSend interface{}
		kind := "clnpay:refused"
		if !decOK {
			kind = "clnpay:decode-err"
		}
		if len(sends) > 0 {
			p := sends[0]
			var route []struct {
				Id        string `json:"id"`
				Channel   string `json:"channel"`
				Amount    uint64 `json:"amount_msat"`
				Delay     uint32 `json:"delay"`
				Direction uint32 `json:"direction"`
			}
			if err := json.Unmarshal(p["route"], &route); err != nil {
				return fmt.Errorf("sendpay route: %v (%s)", err, p["route"])
			}
			var ph, b11 string
			var am uint64
			json.Unmarshal(p["payment_hash"], &ph)
			json.Unmarshal(p["bolt11"], &b11)
			if raw, ok := p["amount_msat"]; ok {
				if err := json.Unmarshal(raw, &am); err != nil {
					return fmt.Errorf("sendpay amount: %v", err)
				}
			}
			hops := []string{}
			for _, h := range route {
				hops = append(hops, coqHop(h.Id, h.Channel, h.Amount, h.Delay, h.Direction))
			}
			obs = fmt.Sprintf("(Some (mk_cln_sendpay %s %s %s %s))", CoqList(hops), CoqStr(ph), CoqZu(am), CoqStr(b11))
			jsSend = map[string]interface{}{"route": route, "payment_hash": ph, "amount_msat": am, "bolt11": b11}
			kind = "clnpay:sent-claim"
			if feePath {
				kind = "clnpay:sent-fee"
			}
		}
		term := fmt.Sprintf("CClnPay %s %s %s %s %s %d%%Z %s", dec, CoqStr(payreq), CoqStr(scid), CoqZu(uint64(limit)), obs, len(sends), CoqBool(perr != nil))
		cf.Add(term, fmt.Sprintf("clnpay|%d|%s|%d|%d|%s|%s|%d", mode, payee, msat, mfc, payreq, scid, limit), true, kind,
			map[string]interface{}{"fn": "clightning.payInvoiceViaChannel", "fee_path": feePath, "decode_mode": mode, "payee": payee, "amount_msat": msat,
				"min_final_cltv_expiry": mfc, "payment_hash": hash, "payreq": payreq, "scid": scid, "limit": limit,
				"sendpay": jsSend, "sendpay_calls": len(sends), "err": perr != nil})
	}
	cl.VerifShutdown()

	// ---------- family 3: buildDirectClaimPaymentRequest directly
	for i := 0; i < *n; i++ {
		limit := genLimit(r)
		cltv := genCltv(r, limit, pad)
		dest := PickS(r, c24Pubkeys)
		remote := dest
		if r.Chance(30) {
			remote = PickS(r, c24Pubkeys)
		}
		inv := &lnrpc.PayReq{Destination: dest, NumSatoshis: int64(genMsat(r) / 1000), NumMsat: 0, CltvExpiry: cltv}
		ch := &lnrpc.Channel{ChanId: genChanId(r), RemotePubkey: remote, LocalBalance: r.Range(0, 10_000_000)}
		payreq := PickS(r, []string{"lnbcrt1claim", "invoice", ""})
		q, err := pslnd.VerifBuildDirectClaimPaymentRequest(payreq, inv, ch, limit)
		obs := "None"
		kind := "lndbuild:err"
		if dest != remote {
			kind = "lndbuild:refused-dest"
		}
		if err == nil {
			obs = "(Some " + coqLndReq(q) + ")"
			kind = "lndbuild:ok"
			if limit == 0 {
				kind = "lndbuild:ok-legacy"
			}
		}
		term := fmt.Sprintf("CLndBuild %s %s %s %s %s", CoqStr(payreq), coqLndInvoice(inv), coqLndChan(ch), CoqZu(uint64(limit)), obs)
		cf.Add(term, fmt.Sprintf("lndbuild|%s|%s|%s|%d|%d|%d", payreq, dest, remote, cltv, ch.ChanId, limit), true, kind,
			map[string]interface{}{"fn": "buildDirectClaimPaymentRequest", "payreq": payreq, "destination": dest, "cltv_expiry": cltv,
				"chan_id": fmt.Sprint(ch.ChanId), "remote_pubkey": remote, "limit": limit, "request": jsLndReq(q), "err": err != nil})
	}

	// ---------- family 4: lnd Client.PayInvoiceViaChannel / RebalancePayment over fake RPC clients
	for i := 0; i < *n; i++ {
		feePath := r.Chance(35)
		var limit uint32
		if !feePath {
			limit = genLimit(r)
		}
		cltv := genCltv(r, limit, pad)
		nch := r.Intn(5)
		if nch == 0 && r.Chance(70) {
			nch = 1 + r.Intn(3)
		}
		chans := []*lnrpc.Channel{}
		for k := 0; k < nch; k++ {
			id := genChanId(r)
			if k > 0 && r.Chance(15) {
				id = chans[r.Intn(k)].ChanId // duplicate id, different peer: first listed wins
			}
			chans = append(chans, &lnrpc.Channel{ChanId: id, RemotePubkey: PickS(r, c24Pubkeys[:4]), LocalBalance: PickI(r, []int64{0, 1, 1000, 100000, 10_000_000, 10_000_000, 21_000_000_0000_0000, 1<<63 - 1, -1})})
		}
		sat := int64(genMsat(r) / 1000)
		if r.Chance(50) {
			sat = PickI(r, []int64{0, 1, 1000, 1001, 99999, 100000, 100001, -1, 1<<63 - 1})
		}
		var scid, dest string
		if nch > 0 && r.Chance(92) {
			c := chans[r.Intn(nch)]
			scid = lndSpell(c.ChanId, PickS(r, []string{":", "x"}))
			if r.Chance(7) { // mixed spelling: not a channel id the code recognises
				scid = fmt.Sprintf("%d:%dx%d", uint32(c.ChanId>>40), uint32(c.ChanId>>16)&0xFFFFFF, uint16(c.ChanId))
			}
			dest = c.RemotePubkey
			if r.Chance(15) {
				dest = PickS(r, c24Pubkeys)
			}
			if limit != 0 && r.Chance(50) {
				cltv = r.Range(0, int64(limit)-pad+1) // mostly inside the limit
			}
			if r.Chance(75) && c.LocalBalance >= 0 {
				sat = r.Range(0, c.LocalBalance)
				if r.Chance(15) {
					sat = c.LocalBalance + r.Range(0, 1)
				}
			}
		} else {
			scid = genFreeScid(r)
			dest = PickS(r, c24Pubkeys)
		}
		inv := &lnrpc.PayReq{Destination: dest, NumSatoshis: sat, NumMsat: sat * 1000, CltvExpiry: cltv}
		payreq := PickS(r, []string{"lnbcrt1fee", "lnbcrt1claim", ""})
		fl := &fakeLnd{decoded: inv, chans: chans}
		if r.Chance(6) {
			fl.decodeErr = errors.New("invalid payreq")
		}
		if r.Chance(4) {
			fl.chansErr = errors.New("rpc down")
		}
		fr := &fakeRouter{}
		c := pslnd.VerifNewClient(fl, fr)
		var perr error
		if feePath {
			_, perr = c.PayInvoiceViaChannel(payreq, scid)
		} else {
			_, perr = c.RebalancePayment(payreq, scid, limit)
		}
		obs := "None"
		var q *routerrpc.SendPaymentRequest
		kind := "lndpay:refused-cltv"
		var first *lnrpc.Channel
		for _, ch := range chans {
			if lndSpell(ch.ChanId, ":") == scid || lndSpell(ch.ChanId, "x") == scid {
				first = ch
				break
			}
		}
		switch {
		case fl.decodeErr != nil:
			kind = "lndpay:decode-err"
		case fl.chansErr != nil:
			kind = "lndpay:listchannels-err"
		case first == nil:
			kind = "lndpay:refused-no-channel"
		case first.LocalBalance < sat:
			kind = "lndpay:refused-balance"
		case first.RemotePubkey != dest:
			kind = "lndpay:refused-dest"
		}
		if len(fr.sent) > 0 {
			q = fr.sent[0]
			obs = "(Some " + coqLndReq(q) + ")"
			kind = "lndpay:sent-claim"
			if feePath {
				kind = "lndpay:sent-fee"
			}
			if strings.Contains(scid, "x") {
				kind += "-x"
			}
		}
		cs := []string{}
		jc := []interface{}{}
		for _, ch := range chans {
			cs = append(cs, coqLndChan(ch))
			jc = append(jc, map[string]interface{}{"chan_id": fmt.Sprint(ch.ChanId), "remote_pubkey": ch.RemotePubkey, "local_balance": ch.LocalBalance})
		}
		term := fmt.Sprintf("CLndPay %s %s %s %s %s %s %d%%Z %s", CoqOpt(fl.decodeErr == nil, coqLndInvoice(inv)), CoqOpt(fl.chansErr == nil, CoqList(cs)),
			CoqStr(payreq), CoqStr(scid), CoqZu(uint64(limit)), obs, len(fr.sent), CoqBool(perr != nil))
		cf.Add(term, fmt.Sprintf("lndpay|%v|%v|%s|%d|%d|%s|%s|%d|%v", fl.decodeErr != nil, fl.chansErr != nil, dest, sat, cltv, payreq, scid, limit, jc), true, kind,
			map[string]interface{}{"fn": "lnd.payInvoiceViaChannel", "fee_path": feePath, "decode_err": fl.decodeErr != nil, "listchannels_err": fl.chansErr != nil,
				"destination": dest, "num_satoshis": sat, "cltv_expiry": cltv, "channels": jc, "payreq": payreq, "scid": scid, "limit": limit,
				"request": jsLndReq(q), "send_calls": len(fr.sent), "err": perr != nil})
	}
	return cf.Write(*out, 400, map[string]interface{}{"seed": *seed})
}
