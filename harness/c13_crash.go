package main

// C13: crash family. Scripted taker flows are replayed once per (step j, effect k): steps
// 0..j-1 run normally, step j dies when its k-th mutating call (store write or service call)
// is about to happen, the bbolt file is reopened with a fresh service, RecoverSwaps runs, and
// the remaining steps of the flow (replays of every later event) and a final restart follow.
// The chain tip moves between steps, so re-running an anchor writer would be visible.

import (
	"flag"
	"fmt"
	"os"
	"path/filepath"
	"sort"
	"strings"
	"sync"
	"time"

	"github.com/btcsuite/btcd/btcec/v2"
	"github.com/elementsproject/peerswap/swap"
	"go.etcd.io/bbolt"
)

type c13Flow struct {
	role, chain string
	steps       []string
}

var c13Flows = []c13Flow{
	{"out_sender", "lbtc", []string{"start", "out_agreement", "otb", "tx_confirmed"}},
	{"in_receiver", "lbtc", []string{"request", "otb", "tx_confirmed"}},
	{"out_sender", "lbtc", []string{"start", "out_agreement", "cancel"}},
	{"in_receiver", "lbtc", []string{"request", "timeout"}},
	{"out_sender", "lbtc", []string{"start", "timeout"}},
	{"in_receiver", "lbtc", []string{"request", "otb", "cancel"}},
	{"out_sender", "btc", []string{"start", "out_agreement", "otb", "tx_confirmed"}},
	{"in_receiver", "btc", []string{"request", "otb", "tx_confirmed"}},
}

type c13Run struct {
	sc      *Scen
	items   []string // Coq c13_item terms, in order
	js      []interface{}
	counts  []int // effects of each scripted step (uncrashed run)
	crashed bool
	nDone   int // sc.steps already converted
}

func c13StepTerm(st stepRecord) string {
	return fmt.Sprintf("CStep (mkStep %s\n      %s\n      %s\n      %s %s %s\n      %s)",
		st.Pre, "("+st.Input+")", st.World, st.Post, CoqBool(st.Removed), st.Err, CoqList(st.Effects))
}

func (r *c13Run) flush() {
	for ; r.nDone < len(r.sc.steps); r.nDone++ {
		st := r.sc.steps[r.nDone]
		r.items = append(r.items, c13StepTerm(st))
		r.js = append(r.js, st.JS)
	}
}

// crashStep runs one entry point with the process dying at its k-th effect, then reopens the store.
func (r *c13Run) crashStep(sp stepSpec, k int) {
	sc := r.sc
	e := sc.env
	pre := ""
	if !sp.fresh {
		m := sc.current()
		if m == nil || sp.restart {
			return
		}
		pre = coqMachine(m, m.VerifRetries())
	}
	susp := e.PeerSuspicious
	e.beginStep(sp.plan, sp.precheck...)
	e.crashAt = k
	func() {
		defer func() {
			if rec := recover(); rec != nil {
				if _, ok := rec.(crashSignal); ok {
					r.crashed = true
				}
			}
		}()
		sp.call()
	}()
	e.crashAt = 0
	if !r.crashed {
		return
	}
	// the machine object of the dead process (only to print what it was given)
	var mem *swap.SwapStateMachine
	if sc.id != nil {
		mem = sc.node.svc.VerifActiveSwap(sc.id.String())
	}
	if mem == nil {
		if ids := sc.node.svc.VerifActiveIds(); len(ids) == 1 {
			mem = sc.node.svc.VerifActiveSwap(ids[0])
		}
	}
	if mem == nil {
		r.crashed = false
		return
	}
	if sc.id == nil {
		sc.id = mem.SwapId
	}
	if sp.fresh {
		pre = coqFreshMachine(mem)
	}
	effects := append([]string{}, e.effects...)
	world := sc.worldTerm(mem.Data, susp)
	input := sp.input(mem)
	// the process is gone: reopen the store with a fresh service (nothing in memory survives)
	if err := sc.restartNode(); err != nil {
		r.crashed = false
		return
	}
	stored := "None"
	state := ""
	if m2, err := sc.node.store.GetData(sc.id.String()); err == nil && m2 != nil {
		state = string(m2.Current)
		stored = "(Some " + CoqPair(CoqStr(state), coqData(m2.Data, string(m2.Data.FSMState))) + ")"
	}
	r.items = append(r.items, fmt.Sprintf("CCrash (mkCrash %s\n      (%s)\n      %s\n      %s\n      %s)", pre, input, world, CoqList(effects), stored))
	r.js = append(r.js, map[string]interface{}{"input": sp.kind, "crash_before_effect": k, "effects_done": len(effects), "stored_state": state})
}

func c13RunFlow(f c13Flow, seed uint64, dbpath string, crashStep, crashK int) (*c13Run, error) {
	rng := NewRng(seed)
	env := newEnv(rng)
	db, err := bbolt.Open(dbpath, 0o600, &bbolt.Options{Timeout: 2 * time.Second, NoSync: true})
	if err != nil {
		return nil, err
	}
	defer db.Close()
	node, err := newNode(env, db)
	if err != nil {
		return nil, err
	}
	pk, _ := btcec.NewPrivateKey()
	sc := &Scen{r: rng, env: env, node: node, peerKey: pk, role: f.role, chain: f.chain, version: 7, clean: true,
		peer: "02" + randHex(rng, 32), self: "03" + randHex(rng, 32),
		scid:   fmt.Sprintf("%dx%dx%d", rng.Range(100, 900000), rng.Range(1, 3000), rng.Range(0, 5)),
		amount: uint64(rng.Range(100000, 5000000))}
	r := &c13Run{sc: sc}
	for j, st := range f.steps {
		if st != "start" && st != "request" && sc.id == nil {
			break
		}
		env.CurHeight += 2 // the tip moves between any two entry points
		if j == crashStep {
			sc.intercept = func(sp stepSpec) (bool, error, bool) {
				r.crashStep(sp, crashK)
				return true, nil, false
			}
			sc.stepNamed(st)
			sc.intercept = nil
			if !r.crashed {
				return r, nil // the step has fewer effects than crashK: nothing to observe
			}
			env.CurHeight += 2
			sc.stepRestart()
			r.flush()
			continue
		}
		before := len(sc.steps)
		sc.stepNamed(st)
		if len(sc.steps) > before {
			r.counts = append(r.counts, len(sc.steps[len(sc.steps)-1].Effects))
		} else {
			r.counts = append(r.counts, 0)
		}
		r.flush()
	}
	env.CurHeight += 2
	sc.stepRestart()
	r.flush()
	return r, nil
}

func init() {
	register("c13crash", "C13: taker flows with a crash at every store write / service call, restart, later events", func(args []string) error {
		fs := flag.NewFlagSet("c13crash", flag.ExitOnError)
		out := fs.String("out", "/verif/work/c13crash", "output dir")
		seed := fs.Uint64("seed", 1, "seed")
		reps := fs.Int("n", 1, "repetitions of the whole enumeration (fresh keys / heights)")
		procs := fs.Int("procs", 24, "parallel scenarios")
		fs.Parse(args)
		os.Setenv("PAYMENT_RETRY_TIME", "2")
		if err := os.MkdirAll(*out, 0o755); err != nil {
			return err
		}
		dbdir := filepath.Join(*out, "db")
		os.RemoveAll(dbdir)
		os.MkdirAll(dbdir, 0o755)
		defer os.RemoveAll(dbdir)
		master := NewRng(*seed)
		type job struct {
			flow   int
			j, k   int
			seed   uint64
			result *c13Run
		}
		var jobs []*job
		n := 0
		for rep := 0; rep < *reps; rep++ {
			// pass 1: the uncrashed flows give the number of effects per step
			for fi, f := range c13Flows {
				base, err := c13RunFlow(f, master.U64(), filepath.Join(dbdir, fmt.Sprintf("b%d.db", n)), -1, 0)
				n++
				if err != nil {
					return err
				}
				jobs = append(jobs, &job{flow: fi, j: -1, result: base})
				for j, cnt := range base.counts {
					for k := 1; k <= cnt; k++ {
						jobs = append(jobs, &job{flow: fi, j: j, k: k, seed: master.U64()})
					}
				}
			}
		}
		var wg sync.WaitGroup
		sem := make(chan struct{}, *procs)
		for i, jb := range jobs {
			if jb.result != nil {
				continue
			}
			wg.Add(1)
			sem <- struct{}{}
			go func(i int, jb *job) {
				defer wg.Done()
				defer func() { <-sem }()
				r, err := c13RunFlow(c13Flows[jb.flow], jb.seed, filepath.Join(dbdir, fmt.Sprintf("c%d.db", i)), jb.j, jb.k)
				if err != nil {
					fmt.Fprintf(os.Stderr, "c13crash %d: %v\n", i, err)
					return
				}
				jb.result = r
			}(i, jb)
		}
		wg.Wait()
		cf := NewCaseFile("From PS Require Import Model.Data Model.Actions Model.Fsm Gen.Tables Gen.ConstsSwap Model.FsmCorr Model.C13Corr.",
			"c13_case", "c13_check", "c13_crash_monitor")
		for _, jb := range jobs {
			r := jb.result
			if r == nil || len(r.items) == 0 || (jb.j >= 0 && !r.crashed) {
				continue
			}
			f := c13Flows[jb.flow]
			dec := []string{}
			for k, v := range r.sc.env.Decode {
				dec = append(dec, CoqPair(CoqStr(k), CoqTuple(CoqStr(v.Hash), CoqZu(v.Msat), CoqZ(v.Cltv))))
			}
			sort.Strings(dec)
			term := fmt.Sprintf("mkC13 %s %s %s", tableName(f.role), CoqList(dec), "[\n    "+strings.Join(r.items, ";\n    ")+"]")
			crashAt := "none"
			if jb.j >= 0 {
				crashAt = fmt.Sprintf("%s@%d", f.steps[jb.j], jb.k)
			}
			cf.Add(term, fmt.Sprintf("%s|%s|%s|%s", f.role, f.chain, strings.Join(f.steps, ","), crashAt), true,
				fmt.Sprintf("%s/%s/crash=%v", f.role, f.chain, jb.j >= 0),
				map[string]interface{}{"role": f.role, "chain": f.chain, "flow": f.steps, "crash_step": jb.j, "crash_before_effect": jb.k, "seed": jb.seed, "steps": r.js})
		}
		return cf.Write(*out, 8, map[string]interface{}{"seed": *seed})
	})
}
