package main

import (
	"errors"
	"flag"
	"fmt"
	"strings"

	"github.com/btcsuite/btcd/btcutil"
	"github.com/btcsuite/btcd/chaincfg"
	"github.com/elementsproject/peerswap/onchain"
	"github.com/elementsproject/peerswap/version"
)

func init() {
	registerDump("ConstsOnchainFee.v", func() (string, error) {
		var b strings.Builder
		b.WriteString("From Coq Require Import ZArith.\nOpen Scope Z_scope.\n")
		fmt.Fprintf(&b, "Definition modern_fee_floor_major : Z := %d.\n", onchain.VerifModernFeeFloorMajor)
		fmt.Fprintf(&b, "Definition modern_fee_floor_minor : Z := %d.\n", onchain.VerifModernFeeFloorMinor)
		fmt.Fprintf(&b, "Definition legacy_fee_floor_sat_per_kw : Z := %d.\n", int64(onchain.LegacyFeeFloorSatPerKw))
		fmt.Fprintf(&b, "Definition modern_fee_floor_sat_per_kw : Z := %d.\n", int64(onchain.ModernFeeFloorSatPerKw))
		fmt.Fprintf(&b, "Definition witness_scale_factor_gen : Z := %d.\n", onchain.VerifWitnessScaleFactor)
		return b.String(), nil
	})
	register("c30", "fee floor / GetFee / CompareVersionStrings correspondence cases", runC30)
}

type fakeEstimator struct {
	v   btcutil.Amount
	err error
}

func (f *fakeEstimator) EstimateFeePerKW(uint32) (btcutil.Amount, error) { return f.v, f.err }
func (f *fakeEstimator) Start() error                                    { return nil }

var versionAlphabet = []string{"0", "1", "2", "9", "29", "30", "28", ".", ".", "/", "Satoshi:", "v", "rc", "-", " ", "(", ")", "x", "253", "00", "92233720368547758079", "9223372036854775807", "9223372036854775808", "\xc3\xa9", "\xd9\xa1", "\n"}

func genVersionString(r *Rng) string {
	switch r.Intn(10) {
	case 0:
		return PickS(r, []string{"", "/Satoshi:29.2.0/", "/Satoshi:29.1.99/", "/Satoshi:30.0.0/", "v29.2", "29", "29.", "29..2", ".29.2", "28.99.99", "29.02", "029.2", "abc", "/Satoshi:0.21.1/", "29.2rc1", "1.2.3.4.5", "29.x.5", "29.2.x"})
	case 1, 2:
		// well formed a.b.c around the gate
		return fmt.Sprintf("%s%d.%d.%d%s", PickS(r, []string{"", "/Satoshi:", "v"}), r.Range(27, 31), r.Range(0, 4), r.Range(0, 3), PickS(r, []string{"", "/", "rc1"}))
	}
	n := r.Intn(8)
	var b strings.Builder
	for i := 0; i < n; i++ {
		b.WriteString(PickS(r, versionAlphabet))
	}
	return b.String()
}

func runC30(args []string) error {
	fs := flag.NewFlagSet("c30", flag.ExitOnError)
	out := fs.String("out", "/verif/work/C30", "output dir")
	seed := fs.Uint64("seed", 1, "seed")
	n := fs.Int("n", 600, "cases per family")
	fs.Parse(args)
	r := NewRng(*seed)

	cf := NewCaseFile("From PS Require Import Model.FeeFloor Model.VersionCmp Model.C30Corr.",
		"c30_case", "c30_check", "c30_monitor")

	// family 1: DetermineFeeFloor
	for i := 0; i < *n; i++ {
		s := genVersionString(r)
		floor, norm := onchain.DetermineFeeFloor(s)
		term := fmt.Sprintf("CFloor %s %s %s", CoqStr(s), CoqZ(int64(floor)), CoqStr(norm))
		cf.Add(term, "floor|"+s, norm != "", fmt.Sprintf("floor:%d", int64(floor)),
			map[string]interface{}{"fn": "DetermineFeeFloor", "in": s, "floor": int64(floor), "norm": norm})
	}
	// family 2: GetFee
	rates := []int64{0, 1, 24, 25, 26, 252, 253, 254, 1000, 12500, 1 << 20, 1 << 40, -1, -253}
	sizes := []int64{0, 1, 110, 250, 350, 999, 1000, 1001, 100000}
	for i := 0; i < *n; i++ {
		var est, fb, fl, sz int64
		if r.Chance(60) {
			est, fb, fl, sz = PickI(r, rates), PickI(r, rates), PickI(r, []int64{25, 253, 0, 1000}), PickI(r, sizes)
		} else {
			est, fb, fl, sz = r.Range(0, 5000), r.Range(0, 5000), PickI(r, []int64{25, 253}), r.Range(1, 2000)
		}
		if fb < 0 {
			fb = -fb
		}
		var eerr error
		if r.Chance(30) {
			eerr = errors.New("estimator down")
		}
		if est < 0 && eerr == nil {
			est = -est
		}
		oc := onchain.NewBitcoinOnChain(&fakeEstimator{btcutil.Amount(est), eerr}, btcutil.Amount(fb), btcutil.Amount(fl), &chaincfg.RegressionNetParams)
		fee, err := oc.GetFee(sz)
		term := fmt.Sprintf("CFee %s %s %s %s %s %s %s", CoqBool(eerr != nil), CoqZ(est), CoqZ(fb), CoqZ(fl), CoqZ(sz), CoqBool(err != nil), CoqZu(fee))
		kind := "fee:est"
		if eerr != nil {
			kind = "fee:err"
		} else if est == 0 {
			kind = "fee:zero"
		}
		cf.Add(term, fmt.Sprintf("fee|%v|%d|%d|%d|%d", eerr != nil, est, fb, fl, sz), true, kind,
			map[string]interface{}{"fn": "GetFee", "est_err": eerr != nil, "est": est, "fallback": fb, "floor": fl, "size": sz, "fee": fee})
	}
	// family 3: CompareVersionStrings
	for i := 0; i < *n; i++ {
		a, b := genVersionString(r), genVersionString(r)
		if r.Chance(15) {
			b = a
		}
		if r.Chance(10) {
			b = a + PickS(r, []string{".0", ".0.0", "rc", ".1"})
		}
		ge, err := version.CompareVersionStrings(a, b)
		term := fmt.Sprintf("CCmp %s %s %s", CoqStr(a), CoqStr(b), CoqOpt(err == nil, CoqBool(ge)))
		cf.Add(term, "cmp|"+a+"|"+b, a != "" && b != "", fmt.Sprintf("cmp:%v:%v", err == nil, ge),
			map[string]interface{}{"fn": "CompareVersionStrings", "a": a, "b": b, "ge": ge, "err": err != nil})
	}
	return cf.Write(*out, 600, map[string]interface{}{"seed": *seed})
}
