package main

// C06, adapter side: the taker's state machine treats an error of RebalancePayment as "the claim payment did not go
// out" and may then disclose its key. That is sound only if the Lightning adapter reports an error when lnd itself
// reported the payment as FAILED (or the connection to lnd broke), never while lnd still reports the HTLC in flight.
// psh paystream runs the REAL lnd.Client.RebalancePayment over a fake lnrpc client and a fake router whose payment
// stream delivers a scripted list of updates (unknown / in flight / succeeded / failed / stream error), and records
// the outcome and whether the adapter put a deadline of its own on the payment stream (with one, a peer that holds
// the HTLC past the deadline and then settles gets both the payment and, through coop_close, the taker's key).

import (
	"context"
	"errors"
	"flag"
	"fmt"
	"io"
	"os"
	"strings"
	"sync"

	pslnd "github.com/elementsproject/peerswap/lnd"
	"github.com/lightningnetwork/lnd/lnrpc"
	"github.com/lightningnetwork/lnd/lnrpc/routerrpc"
	"google.golang.org/grpc"
)

func init() {
	register("paystream", "outcome of the real lnd RebalancePayment over scripted payment-update streams", runPayStream)
}

type psRouter struct {
	routerrpc.RouterClient
	script      []string // U I S F E
	openErr     bool
	mu          sync.Mutex
	hasDeadline bool
	consumed    int
	ctx         context.Context
}

type psStream struct {
	grpc.ClientStream
	r *psRouter
}

func (s *psStream) Recv() (*lnrpc.Payment, error) {
	s.r.mu.Lock()
	defer s.r.mu.Unlock()
	if err := s.r.ctx.Err(); err != nil {
		return nil, err
	}
	if s.r.consumed >= len(s.r.script) {
		return nil, io.EOF
	}
	ev := s.r.script[s.r.consumed]
	s.r.consumed++
	switch ev {
	case "U":
		return &lnrpc.Payment{Status: lnrpc.Payment_UNKNOWN}, nil
	case "I":
		return &lnrpc.Payment{Status: lnrpc.Payment_IN_FLIGHT}, nil
	case "S":
		return &lnrpc.Payment{Status: lnrpc.Payment_SUCCEEDED, PaymentPreimage: strings.Repeat("cd", 32)}, nil
	case "F":
		return &lnrpc.Payment{Status: lnrpc.Payment_FAILED, FailureReason: lnrpc.PaymentFailureReason_FAILURE_REASON_NO_ROUTE}, nil
	}
	return nil, errors.New("rpc error: transport is closing")
}

func (f *psRouter) SendPaymentV2(ctx context.Context, in *routerrpc.SendPaymentRequest, opts ...grpc.CallOption) (routerrpc.Router_SendPaymentV2Client, error) {
	f.mu.Lock()
	defer f.mu.Unlock()
	_, f.hasDeadline = ctx.Deadline()
	f.ctx = ctx
	if f.openErr {
		return nil, errors.New("rpc error: unavailable")
	}
	return &psStream{r: f}, nil
}

func runPayStream(args []string) error {
	fs := flag.NewFlagSet("paystream", flag.ExitOnError)
	out := fs.String("out", "/verif/work/C06/paystream", "output dir")
	seed := fs.Uint64("seed", 1, "seed")
	n := fs.Int("n", 8, "random scripts (after the fixed ones)")
	fs.Parse(args)
	r := NewRng(*seed)
	if err := os.MkdirAll(*out, 0o755); err != nil {
		return err
	}
	cf := NewCaseFile("From PS Require Import Model.C06PayStream.", "ps_case", "ps_check", "ps_monitor")
	scripts := [][]string{{"S"}, {"F"}, {"E"}, {}, {"I", "S"}, {"I", "F"}, {"I", "E"}, {"U", "I", "S"}, {"I", "I", "S"}, {"U", "F"}, {"I", "I", "F"}, {"S", "F"}, {"F", "S"}, {"open-error"}}
	for i := 0; i < *n; i++ {
		var s []string
		for k := r.Intn(3); k > 0; k-- {
			s = append(s, PickS(r, []string{"I", "I", "U"}))
		}
		s = append(s, PickS(r, []string{"S", "S", "F", "E"}))
		scripts = append(scripts, s)
	}
	type obs struct {
		ok, hasDeadline bool
		consumed        int
		preimage        string
	}
	res := make([]obs, len(scripts))
	var wg sync.WaitGroup
	id := (uint64(700000) << 40) | (1 << 16)
	peer := "02aa0000000000000000000000000000000000000000000000000000000000000a"
	for i, sc := range scripts {
		wg.Add(1)
		go func(i int, sc []string) {
			defer wg.Done()
			fl := &fakeLnd{decoded: &lnrpc.PayReq{Destination: peer, NumSatoshis: 100000, NumMsat: 100000000, CltvExpiry: 18},
				chans: []*lnrpc.Channel{{ChanId: id, RemotePubkey: peer, LocalBalance: 10_000_000, Active: true}}}
			fr := &psRouter{script: sc}
			if len(sc) == 1 && sc[0] == "open-error" {
				fr.script, fr.openErr = nil, true
			}
			c := pslnd.VerifNewClient(fl, fr)
			pre, err := c.RebalancePayment("lnbcrt1claim", "700000x1x0", 144)
			res[i] = obs{ok: err == nil, hasDeadline: fr.hasDeadline, consumed: fr.consumed, preimage: pre}
		}(i, sc)
	}
	wg.Wait()
	for i, sc := range scripts {
		o := res[i]
		evs := []string{}
		for _, e := range sc {
			evs = append(evs, map[string]string{"U": "PUnknown", "I": "PInFlight", "S": "PSucceeded", "F": "PFailed", "E": "PStreamError", "open-error": "POpenError"}[e])
		}
		term := fmt.Sprintf("mkPs %s %s %s %d%%nat", CoqList(evs), CoqBool(o.ok), CoqBool(o.hasDeadline), o.consumed)
		kind := "paystream:error"
		if o.ok {
			kind = "paystream:paid"
		}
		cf.Add(term, fmt.Sprintf("ps|%d|%s", i, strings.Join(sc, "")), len(sc) > 1, kind,
			map[string]interface{}{"family": "paystream", "script": sc, "paid": o.ok, "stream_has_own_deadline": o.hasDeadline, "updates_consumed": o.consumed})
	}
	return cf.Write(*out, 400, map[string]interface{}{"seed": *seed})
}
