package main

// Service-layer scenarios (C09, C10, C11): several swaps on one node; every
// operation is one service entry point (peer message incl. requests, RPC
// SwapOut/SwapIn); after each operation the active-swap map and the durable
// store of the real SwapService are dumped and compared with the model.

import (
	"context"
	"encoding/hex"
	"encoding/json"
	"errors"
	"flag"
	"fmt"
	"os"
	"path/filepath"
	"sort"
	"strings"
	"sync"
	"time"

	"github.com/btcsuite/btcd/btcec/v2"
	"github.com/elementsproject/peerswap/messages"
	"github.com/elementsproject/peerswap/policy"
	"github.com/elementsproject/peerswap/premium"
	"github.com/elementsproject/peerswap/swap"
	"go.etcd.io/bbolt"
)

type svcOp struct {
	Kind    string
	Term    string // Coq svc_op
	World   string // Coq svc_world
	Result  string // Coq svc_result
	Effects []string
	Node    string // Coq node after the operation
	JS      map[string]interface{}
}

type svcScen struct {
	r         *Rng
	env       *Env
	node      *Node
	peers     []string
	keys      map[string]*btcec.PrivateKey // peer -> its swap key (for pubkeys in messages)
	scids     []string
	ops       []svcOp
	pre       string   // Coq node before the first op
	known     []string // ids seen so far (active or finished)
	seenBlind map[string]bool
}

func (sc *svcScen) nodeTerm() string {
	act := []string{}
	for _, id := range sc.node.svc.VerifActiveIds() {
		m := sc.node.svc.VerifActiveSwap(id)
		if m == nil {
			continue
		}
		act = append(act, CoqPair(CoqStr(id), coqMachine(m, m.VerifRetries())))
	}
	st := []string{}
	all, _ := sc.node.store.ListAll()
	sort.Slice(all, func(i, j int) bool { return all[i].SwapId.String() < all[j].SwapId.String() })
	for _, m := range all {
		st = append(st, CoqPair(CoqStr(m.SwapId.String()), CoqPair(CoqStr(string(m.Current)), coqData(m.Data, ""))))
	}
	return fmt.Sprintf("(mkNode %s %s)", CoqList(act), CoqList(st))
}

func svcResult(err error, panicked bool, neffects int) string {
	switch {
	case err != nil && errors.Is(err, errFake) && neffects == 0:
		return "SErrRefused" // a service-level pre-check failed before any swap was touched
	case panicked:
		return "(SErrMachine ErrPanic)"
	case err == nil:
		return "SOk"
	case errors.Is(err, swap.ErrSwapDoesNotExist):
		return "SErrNoSwap"
	case strings.Contains(err.Error(), "unexpected peer"):
		return "SErrUnexpectedPeer"
	}
	if k := errKind(err); k != "" && k != "ErrNone" {
		return "(SErrMachine " + k + ")"
	}
	return "SErrRefused"
}

type svcWorldIn struct {
	premium    *int64
	canSpend   bool
	spendable  *uint64
	spendErr   bool
	receivable *uint64
	recvErr    bool
	probe      *bool
	probeErr   bool
	balance    *uint64
	freshPriv  string
	freshID    string
	sendFail   bool // the first message the node tries to send during the operation cannot be delivered
}

func (sc *svcScen) svcWorldTerm(in svcWorldIn, d *swap.SwapData) string {
	e := sc.env
	inner := "(mkWorld true true true 0%Z true false \"\" \"\" None \"\" [] [] [] [] [] [] [] [] [] [] [] [] [] [] [] [] [] [] [] [] false)"
	if d != nil {
		fs := &Scen{env: e, node: sc.node}
		inner = fs.worldTerm(d, e.suspAtStep)
	}
	prem := "None"
	if in.premium != nil {
		prem = "(Some " + CoqZ(*in.premium) + ")"
	}
	optU := func(v *uint64, isErr bool, dflt uint64) string {
		if isErr {
			return "None"
		}
		if v == nil {
			return fmt.Sprintf("(Some %d%%Z)", dflt)
		}
		return fmt.Sprintf("(Some %d%%Z)", *v)
	}
	probe := "(Some true)"
	if in.probeErr {
		probe = "None"
	} else if in.probe != nil {
		probe = "(Some " + CoqBool(*in.probe) + ")"
	}
	bal := uint64(1 << 60)
	if in.balance != nil {
		bal = *in.balance
	}
	maxSwap := fmt.Sprintf("(Some %s)", CoqZbigU(bal-300))
	return fmt.Sprintf("(mkSvcWorld %s %s %s %s %s %s %s %s %s %s %s %s)", inner, CoqBool(e.SwapsAllowed), CoqBool(e.suspAtStep),
		CoqZu(e.MinAmountMsat), prem, CoqBool(in.canSpend), optU(in.spendable, in.spendErr, 1<<62), optU(in.receivable, in.recvErr, 1<<62),
		probe, maxSwap, CoqStr(in.freshPriv), CoqStr(in.freshID))
}

// CoqZbigU prints a uint64 that may have wrapped (balance - fee) as the Go code computes it
func CoqZbigU(v uint64) string { return fmt.Sprintf("%d%%Z", v) }

func (sc *svcScen) computePremium(peer string, network string, out bool, amount uint64) *int64 {
	at := premium.BTC
	if network == "" {
		at = premium.LBTC
	}
	op := premium.SwapIn
	if out {
		op = premium.SwapOut
	}
	v, err := sc.node.ps.Compute(peer, at, op, amount)
	if err != nil {
		return nil
	}
	return &v
}

func (sc *svcScen) applyPlan(in svcWorldIn) {
	p := SvcPlan{CanSpendErr: !in.canSpend}
	if in.spendErr {
		var z *uint64
		p.Spendable = &z
	} else if in.spendable != nil {
		v := in.spendable
		p.Spendable = &v
	}
	if in.recvErr {
		var z *uint64
		p.Receivable = &z
	} else if in.receivable != nil {
		v := in.receivable
		p.Receivable = &v
	}
	if in.probeErr {
		var z *bool
		p.Probe = &z
	} else if in.probe != nil {
		v := in.probe
		p.Probe = &v
	}
	p.Balance = in.balance
	sc.env.svc = p
}

func (sc *svcScen) randomSvcWorld() svcWorldIn {
	r := sc.r
	in := svcWorldIn{canSpend: true}
	switch r.Intn(14) {
	case 0:
		in.canSpend = false
	case 1:
		in.spendErr = true
	case 2:
		in.spendable = u64p(uint64(r.Range(0, 100000000)))
	case 3:
		in.recvErr = true
	case 4:
		in.receivable = u64p(uint64(r.Range(0, 100000000)))
	case 5:
		in.probe = boolp(false)
	case 6:
		in.probeErr = true
	}
	return in
}

// runOp executes one service call and records the case
func (sc *svcScen) runOp(kind, term string, in svcWorldIn, precheck []string, idHint func() string, call func() error) {
	e := sc.env
	e.suspAtStep = e.PeerSuspicious
	sc.applyPlan(in)
	plan := Plan{}
	if in.sendFail {
		plan.Send = []bool{false}
	}
	e.beginStep(plan, precheck...)
	var err error
	panicked := false
	func() {
		defer func() {
			if rec := recover(); rec != nil {
				panicked = true
			}
		}()
		err = call()
	}()
	// the inner world is printed relative to the swap the step touched (if any)
	var d *swap.SwapData
	id := idHint()
	if id != "" {
		if m := sc.node.svc.VerifActiveSwap(id); m != nil {
			d = m.Data
		} else if m, gerr := sc.node.store.GetData(id); gerr == nil {
			d = m.Data
		}
	}
	if in.freshPriv == "" && d != nil {
		in.freshPriv = hex.EncodeToString(d.PrivkeyBytes)
	}
	if d != nil && d.BlindingKeyHex != "" {
		found := false
		for _, b := range e.served.Blind {
			if b == d.BlindingKeyHex {
				found = true
			}
		}
		if !found && len(e.effects) > 0 && !sc.seenBlind[d.BlindingKeyHex] {
			e.served.Blind = append(e.served.Blind, d.BlindingKeyHex)
		}
		sc.seenBlind[d.BlindingKeyHex] = true
	}
	op := svcOp{Kind: kind, Term: term, World: sc.svcWorldTerm(in, d), Result: svcResult(err, panicked, len(e.effects)),
		Effects: append([]string{}, e.effects...), Node: sc.nodeTerm(),
		JS: map[string]interface{}{"op": kind, "result": svcResult(err, panicked, len(e.effects)), "effects": e.effJSON, "active": sc.node.svc.VerifActiveIds()}}
	sc.ops = append(sc.ops, op)
	e.svc = SvcPlan{}
}

func init() {
	register("svc", "service-layer scenarios (routing, lockSwap, admission) against the real SwapService", func(args []string) error {
		fs := flag.NewFlagSet("svc", flag.ExitOnError)
		out := fs.String("out", "/verif/work/svc", "output dir")
		seed := fs.Uint64("seed", 1, "seed")
		n := fs.Int("n", 60, "scenarios")
		procs := fs.Int("procs", 16, "parallel scenarios")
		mon := fs.String("monitor", "svc_monitor", "Coq monitor (svc_case -> bool)")
		imp := fs.String("imports", "", "extra import line")
		fs.Parse(args)
		os.Setenv("PAYMENT_RETRY_TIME", "2")
		if err := os.MkdirAll(*out, 0o755); err != nil {
			return err
		}
		dbdir := filepath.Join(*out, "db")
		os.RemoveAll(dbdir)
		os.MkdirAll(dbdir, 0o755)
		master := NewRng(*seed)
		seeds := make([]uint64, *n)
		for i := range seeds {
			seeds[i] = master.U64()
		}
		res := make([]*svcScen, *n)
		var wg sync.WaitGroup
		sem := make(chan struct{}, *procs)
		for i := 0; i < *n; i++ {
			wg.Add(1)
			sem <- struct{}{}
			go func(i int) {
				defer wg.Done()
				defer func() { <-sem }()
				sc, err := runSvcScenario(seeds[i], i, filepath.Join(dbdir, fmt.Sprintf("v%d.db", i)))
				if err != nil {
					fmt.Fprintf(os.Stderr, "svc scenario %d: %v\n", i, err)
					return
				}
				res[i] = sc
			}(i)
		}
		wg.Wait()
		os.RemoveAll(dbdir)
		cf := NewCaseFile("From PS Require Import Model.Data Model.Actions Model.Fsm Model.Service Model.SvcCorr Gen.Tables Gen.ConstsSwap.\n"+*imp,
			"svc_case", "svc_check", *mon)
		for i, sc := range res {
			if sc == nil {
				continue
			}
			ops := []string{}
			js := []interface{}{}
			kinds := []string{}
			for _, o := range sc.ops {
				ops = append(ops, fmt.Sprintf("mkSvcStep (%s)\n      %s\n      %s %s\n      %s", o.Term, o.World, o.Result, CoqList(o.Effects), o.Node))
				js = append(js, o.JS)
				kinds = append(kinds, o.Kind+"="+o.Result)
			}
			dec := []string{}
			for k, v := range sc.env.Decode {
				dec = append(dec, CoqPair(CoqStr(k), CoqTuple(CoqStr(v.Hash), CoqZu(v.Msat), CoqZ(v.Cltv))))
			}
			sort.Strings(dec)
			term := fmt.Sprintf("mkSvcCase %s %s [\n    %s]", CoqList(dec), sc.pre, strings.Join(ops, ";\n    "))
			cf.Add(term, strings.Join(kinds, ","), len(sc.ops) > 1, fmt.Sprintf("ops=%d", len(sc.ops)),
				map[string]interface{}{"scenario": i, "seed": seeds[i], "ops": js})
			for _, k := range kinds {
				cf.Kinds["op:"+k]++
			}
		}
		return cf.Write(*out, 3, map[string]interface{}{"seed": *seed})
	})
}

// ---- scenario generation ----

type svcDirected struct{ ops []string }

var svcDirectedScenarios = []svcDirected{
	// id reuse: a request re-using the id of an ACTIVE swap on another channel
	{[]string{"req_out c0 p0", "req_out_reuse c1 p0"}},
	{[]string{"req_in c0 p0", "req_in_reuse c1 p1"}},
	// id reuse: the id of a FINISHED swap (request that was cancelled)
	{[]string{"req_out_bad c0 p0", "req_out_reuse c1 p0"}},
	// id reuse: a swap that is stored but not yet recovered (restart without recovery)
	{[]string{"req_out c0 p0", "restart_norecover", "req_out_reuse c1 p0"}},
	// foreign sender / unknown id
	{[]string{"req_out c0 p0", "cancel_foreign", "coop_foreign", "otb_foreign", "cancel_unknown"}},
	// the other spelling of the channel id
	{[]string{"rpc_out c0: p0", "req_in c0 p0"}},
	{[]string{"req_in c0 p0", "rpc_out c0: p0"}},
	{[]string{"rpc_in c0 p0", "req_out c0: p0"}},
	// same spelling: second swap on the channel is refused with a cancel
	{[]string{"rpc_out c0 p0", "req_in c0 p0", "rpc_in c0 p0"}},
	// messages that the current state does not accept
	{[]string{"rpc_out c0 p0", "in_agreement", "otb_early", "coop_early"}},
	{[]string{"req_in c0 p0", "cancel_own", "cancel_own"}},
	// a stray agreement of the other swap direction, then the real one (nil dereference in CheckPremiumAmount)
	{[]string{"rpc_out c0 p0", "in_agreement", "out_agreement"}},
	// two callers lock the same channel before the first request is attached
	{[]string{"rpc_out_blocked c0 p0"}},
	// a request arriving between Start() and RecoverSwaps()
	{[]string{"req_in c0 p0", "restart_norecover", "req_out c0 p1", "restart"}},
	// amount*1000 wraps around 2^64
	{[]string{"req_in_wrap c0 p0", "req_out_wrap c1 p0"}},
	// admission boundaries
	{[]string{"req_in_lowcap c0 p0", "req_out_lowcap c1 p0", "req_in_limit c2 p0", "req_out_limit c3 p0"}},
	// a third party's message with a live swap's id must not change what the counterparty's next message of the
	// same type does (e.g. through the per-swap "last message type" log)
	{[]string{"rpc_out c0 p0", "out_agreement", "otb_foreign", "otb_own"}},
	{[]string{"req_in c0 p0", "otb_foreign", "otb_own", "cancel_foreign", "cancel_own"}},
	{[]string{"rpc_out c0 p0", "out_agreement_foreign", "out_agreement"}},
	{[]string{"rpc_in c0 p0", "in_agreement_foreign", "in_agreement", "coop_foreign", "coop_own"}},
	// id reuse while the refusal cannot be delivered (the requester has disconnected)
	{[]string{"req_out c0 p0", "req_out_reuse_sendfail c1 p0", "req_in_reuse_sendfail c2 p1"}},
	{[]string{"req_out_bad c0 p0", "req_in_reuse_sendfail c1 p0"}},
	{[]string{"req_in c0 p0", "restart_norecover", "req_in_reuse_sendfail c1 p0"}},
	// the minimum amount is not a multiple of 1000 msat: amounts right at floor(min/1000) sat
	{[]string{"minedge", "req_in_minamt c0 p0", "req_out_minamt c1 p0", "req_in_minamt c2 p1", "req_out_minamt c3 p1"}},
	// distinct premium rates per asset / operation / peer; acceptable premium right at the premium due
	{[]string{"rates", "req_in_limit c0 p0", "req_out_limit c1 p0", "req_in_limit c2 p1", "req_out_limit c3 p1"}},
	{[]string{"rates", "req_in_limit c0 p1", "req_out_limit c1 p1", "req_in_limit c2 p0", "req_out_limit c3 p0"}},
	// a REAL policy.Policy read from a file: peers on the allowlist AND the suspicious list, on one of them, on neither
	{[]string{"realpolicy both", "req_in c0 p0", "req_out c1 p1"}},
	{[]string{"realpolicy both_acceptall", "req_in c0 p0", "req_out c1 p1"}},
	{[]string{"realpolicy allow", "req_in c0 p0", "req_out c1 p1"}},
	{[]string{"realpolicy susp_acceptall", "req_in c0 p0", "req_out c1 p1"}},
	{[]string{"realpolicy none", "req_in c0 p0", "req_out c1 p1"}},
	{[]string{"realpolicy acceptall", "req_in c0 p0", "req_out c1 p1"}},
	// recovery of a stored swap fails (store write refused): the swap keeps its channel
	{[]string{"req_out c0 p0", "restart_fail", "req_in c0 p1", "rpc_out c0 p1"}},
	{[]string{"rpc_in c0: p0", "restart_fail", "req_out c0 p0"}},
}

func runSvcScenario(seed uint64, idx int, dbpath string) (*svcScen, error) {
	r := NewRng(seed)
	env := newEnv(r)
	db, err := bbolt.Open(dbpath, 0o600, &bbolt.Options{Timeout: 2 * time.Second, NoSync: true})
	if err != nil {
		return nil, err
	}
	defer db.Close()
	// policy / configuration variants (the directed scenarios keep the permissive defaults)
	if idx >= len(svcDirectedScenarios) {
		switch r.Intn(14) {
		case 0:
			env.SwapsAllowed = false
		case 1:
			env.PeerAllowed = false
		case 2:
			env.PeerSuspicious = true
		case 3:
			env.LiquidEnabled = false
		case 4:
			env.BitcoinEnabled = false
		case 5:
			env.MinAmountMsat = 2_000_000_000
		case 6:
			env.BtcNetwork = "signet"
		case 7, 8:
			env.MinAmountMsat = uint64(r.Range(100, 3000))*1000000 + uint64(r.Range(1, 999))
		}
	}
	node, err := newNode(env, db)
	if err != nil {
		return nil, err
	}
	sc := &svcScen{r: r, env: env, node: node, keys: map[string]*btcec.PrivateKey{}, seenBlind: map[string]bool{}}
	for i := 0; i < 3; i++ {
		p := "02" + randHex(r, 32)
		sc.peers = append(sc.peers, p)
		k, _ := btcec.NewPrivateKey()
		sc.keys[p] = k
	}
	for i := 0; i < 4; i++ {
		sc.scids = append(sc.scids, fmt.Sprintf("%dx%dx%d", 600000+i, r.Range(1, 3000), r.Range(0, 5)))
	}
	sc.pre = sc.nodeTerm()
	if idx < len(svcDirectedScenarios) {
		for _, o := range svcDirectedScenarios[idx].ops {
			sc.opNamed(o)
		}
		return sc, nil
	}
	if r.Chance(40) {
		sc.opNamed("rates")
	}
	if r.Chance(20) {
		sc.opNamed("realpolicy " + PickS(r, []string{"both", "both_acceptall", "allow", "susp_acceptall", "none", "acceptall"}))
	}
	nops := 3 + r.Intn(6)
	pool := []string{"rpc_out", "rpc_in", "req_out", "req_in", "req_out_reuse", "req_in_reuse", "cancel_own", "cancel_foreign", "coop_foreign",
		"otb_foreign", "cancel_unknown", "in_agreement", "out_agreement", "otb_early", "coop_early", "restart", "restart_norecover",
		"req_in_lowcap", "req_out_lowcap", "req_in_limit", "req_out_limit", "req_out_bad", "req_in_wrap", "req_out_wrap",
		"otb_own", "coop_own", "out_agreement_foreign", "in_agreement_foreign", "req_out_reuse_sendfail", "req_in_reuse_sendfail", "restart_fail", "req_in_minamt", "req_out_minamt"}
	for i := 0; i < nops; i++ {
		o := PickS(r, pool)
		c := fmt.Sprintf("c%d", r.Intn(3))
		if r.Chance(30) {
			c += ":"
		}
		sc.opNamed(fmt.Sprintf("%s %s p%d", o, c, r.Intn(2)))
	}
	return sc, nil
}

func (sc *svcScen) chan_(tok string) string {
	colon := strings.HasSuffix(tok, ":")
	tok = strings.TrimSuffix(tok, ":")
	i := 0
	fmt.Sscanf(tok, "c%d", &i)
	s := sc.scids[i%len(sc.scids)]
	if colon {
		s = strings.ReplaceAll(s, "x", ":")
	}
	return s
}

func (sc *svcScen) peer_(tok string) string {
	i := 0
	fmt.Sscanf(tok, "p%d", &i)
	return sc.peers[i%len(sc.peers)]
}

func (sc *svcScen) anyActive() (string, *swap.SwapStateMachine) {
	ids := sc.node.svc.VerifActiveIds()
	if len(ids) == 0 {
		return "", nil
	}
	id := ids[sc.r.Intn(len(ids))]
	return id, sc.node.svc.VerifActiveSwap(id)
}

func idFromHex(h string) *swap.SwapId {
	id, err := swap.ParseSwapIdFromString(h)
	if err != nil {
		return swap.NewSwapId()
	}
	return id
}

func (sc *svcScen) deliverMsg(kind string, sender string, msg interface{}, t messages.MessageType, in svcWorldIn, id string) {
	payload, _ := json.Marshal(msg)
	term := fmt.Sprintf("SvMsg %s %s", CoqStr(sender), coqWire(payload, int(t)))
	var pre []string
	if t == messages.MESSAGETYPE_SWAPINREQUEST {
		pre = []string{"Spendable", "Probe"}
	}
	sc.runOp(kind, term, in, pre, func() string { return id }, func() error { return sc.node.msgr.handler(sender, hexType(t), payload) })
}

func (sc *svcScen) opNamed(spec string) {
	r := sc.r
	f := strings.Fields(spec)
	name := f[0]
	ch, peer := sc.scids[0], sc.peers[0]
	if len(f) > 1 {
		ch = sc.chan_(f[1])
	}
	if len(f) > 2 {
		peer = sc.peer_(f[2])
	}
	amount := uint64(r.Range(200000, 3000000))
	chain := PickS(r, []string{"btc", "lbtc"})
	asset, network := "", "regtest"
	if chain == "lbtc" {
		asset, network = lbtcAssetHex, ""
	}
	pub := hex.EncodeToString(sc.keys[sc.peers[0]].PubKey().SerializeCompressed())
	switch {
	case name == "rpc_out" || name == "rpc_in":
		in := sc.randomSvcWorld()
		out := name == "rpc_out"
		ppm := int64(r.Range(0, 50000))
		var created *swap.SwapStateMachine
		sc.runOpRPC(name, out, peer, chain, ch, amount, ppm, in, &created)
	case strings.HasPrefix(name, "req_out") || strings.HasPrefix(name, "req_in"):
		out := strings.HasPrefix(name, "req_out")
		in := sc.randomSvcWorld()
		if sc.r.Chance(60) || strings.Contains(name, "_reuse") || strings.Contains(name, "_bad") {
			in = svcWorldIn{canSpend: true}
		}
		id := swap.NewSwapId()
		limit := int64(r.Range(20000, 1000000))
		version := uint8(7)
		if strings.Contains(name, "_reuse") && len(sc.known) > 0 {
			id = idFromHex(sc.known[r.Intn(len(sc.known))])
		}
		if strings.HasSuffix(name, "_sendfail") {
			in.sendFail = true
		}
		if strings.HasSuffix(name, "_bad") {
			version = 5 // refused by CheckRequestWrapperAction: swap ends cancelled
		}
		if idxRandom := sc.r.Intn(12); !strings.Contains(name, "_") {
			switch idxRandom {
			case 0:
				version = uint8(sc.r.Intn(9))
			case 1:
				if chain == "lbtc" {
					asset = strings.Repeat("ab", 33) // some other asset
				} else {
					network = "mainnet"
				}
			case 2:
				amount = PickU(sc.r, []uint64{1, 99999, 100000, 100001, 1999999, 2000000})
			}
		}
		if strings.HasSuffix(name, "_wrap") {
			amount = 18446744073709552 + uint64(r.Range(0, 3)) // amount*1000 mod 2^64 is tiny
			v := uint64(100000000)
			if out {
				in.receivable = &v
			} else {
				in.spendable = &v
			}
			sc.env.MinAmountMsat = 0
		}
		if strings.HasSuffix(name, "_minamt") {
			amount = sc.env.MinAmountMsat/1000 + uint64(r.Range(-1, 1))
			if r.Chance(50) {
				amount = sc.env.MinAmountMsat / 1000
			}
		}
		if strings.HasSuffix(name, "_lowcap") {
			v := amount*1000 + uint64(r.Range(-1, 1))
			if out {
				in.receivable = &v
			} else {
				in.spendable = &v
			}
		}
		in.premium = sc.computePremium(peer, network, out, amount)
		if strings.HasSuffix(name, "_limit") && in.premium != nil {
			limit = *in.premium + r.Range(-1, 1)
		}
		sc.known = append(sc.known, id.String())
		if out {
			msg := &swap.SwapOutRequestMessage{ProtocolVersion: version, SwapId: id, Asset: asset, Network: network, Scid: ch, Amount: amount, Pubkey: pub, PremiumLimit: limit}
			sc.deliverMsg(name, peer, msg, messages.MESSAGETYPE_SWAPOUTREQUEST, in, id.String())
		} else {
			msg := &swap.SwapInRequestMessage{ProtocolVersion: version, SwapId: id, Asset: asset, Network: network, Scid: ch, Amount: amount, Pubkey: pub, PremiumLimit: limit}
			sc.deliverMsg(name, peer, msg, messages.MESSAGETYPE_SWAPINREQUEST, in, id.String())
		}
	case name == "minedge" || name == "rates" || name == "realpolicy":
		// configuration changes between operations (not compared; the node is adopted as is)
		switch name {
		case "minedge":
			sc.env.MinAmountMsat = uint64(r.Range(100, 3000))*1000000 + uint64(r.Range(1, 999))
		case "rates":
			// every (asset, operation) default and the rates of peer p0 get their own value; swap-in above and
			// below swap-out
			ctx := context.Background()
			for _, at := range []premium.AssetType{premium.BTC, premium.LBTC} {
				for _, op := range []premium.OperationType{premium.SwapIn, premium.SwapOut} {
					if rate, err := premium.NewPremiumRate(at, op, premium.NewPPM(r.Range(0, 40000))); err == nil {
						sc.node.ps.SetDefaultRate(ctx, rate)
					}
					if rate, err := premium.NewPremiumRate(at, op, premium.NewPPM(r.Range(0, 40000))); err == nil && r.Chance(70) {
						sc.node.ps.SetRate(ctx, sc.peers[0], rate)
					}
				}
			}
		case "realpolicy":
			mode := "both"
			if len(f) > 1 {
				mode = f[1]
			}
			acceptAll := strings.Contains(mode, "acceptall")
			inAllow := strings.HasPrefix(mode, "both") || strings.HasPrefix(mode, "allow")
			inSusp := strings.HasPrefix(mode, "both") || strings.HasPrefix(mode, "susp")
			var b strings.Builder
			fmt.Fprintf(&b, "accept_all_peers=%v\n", acceptAll)
			for _, pk := range sc.peers {
				if inAllow {
					fmt.Fprintf(&b, "allowlisted_peers=%s\n", pk)
				}
				if inSusp {
					fmt.Fprintf(&b, "suspicious_peers=%s\n", pk)
				}
			}
			path := filepath.Join(os.TempDir(), fmt.Sprintf("psh-svc-policy-%d-%d.conf", os.Getpid(), r.Intn(1<<30)))
			if err := os.WriteFile(path, []byte(b.String()), 0o600); err == nil {
				if pol, err := policy.CreateFromFile(path); err == nil {
					sc.env.realPol = pol
					// ground truth by the meaning of the lists, not by asking the policy
					sc.env.PeerAllowed = acceptAll || inAllow
					sc.env.PeerSuspicious = inSusp
				}
				os.Remove(path)
			}
		}
		sc.ops = append(sc.ops, svcOp{Kind: name, Term: "SvReset", World: sc.svcWorldTerm(svcWorldIn{canSpend: true}, nil), Result: "SOk", Node: sc.nodeTerm(),
			JS: map[string]interface{}{"op": spec, "active": sc.node.svc.VerifActiveIds()}})
	case name == "rpc_out_blocked":
		sc.runBlockedRPC(ch, peer, amount)
	case name == "restart" || name == "restart_norecover" || name == "restart_fail":
		// a restart is not a compared operation here: it changes which swaps are active
		n, err := newNode(sc.env, sc.node.db)
		if err != nil {
			return
		}
		sc.node = n
		if name == "restart" {
			// recovery of several swaps runs concurrently in the code; use it only to re-populate the map
			sc.env.beginStep(Plan{})
			sc.node.svc.RecoverSwaps()
		}
		if name == "restart_fail" {
			// every store write during recovery is refused: Recover() of each stored swap returns an error
			sc.env.beginStep(Plan{Store: []bool{false, false, false, false, false, false, false, false}})
			sc.node.svc.RecoverSwaps()
		}
		sc.ops = append(sc.ops, svcOp{Kind: name, Term: "SvReset", World: sc.svcWorldTerm(svcWorldIn{canSpend: true}, nil), Result: "SOk", Node: sc.nodeTerm(),
			JS: map[string]interface{}{"op": name, "active": sc.node.svc.VerifActiveIds()}})
	default:
		// messages about an existing (or unknown) swap
		id, m := sc.anyActive()
		sender := ""
		if m != nil {
			sender = m.Data.PeerNodeId
		}
		if strings.HasSuffix(name, "_foreign") {
			sender = sc.peers[2]
			if sender == "" || (m != nil && sender == m.Data.PeerNodeId) {
				sender = "03" + randHex(r, 32)
			}
		}
		sid := idFromHex(id)
		if strings.HasSuffix(name, "_unknown") || id == "" {
			sid = swap.NewSwapId()
			id = sid.String()
			if sender == "" {
				sender = sc.peers[0]
			}
		}
		in := svcWorldIn{canSpend: true}
		switch strings.Split(name, "_")[0] {
		case "cancel":
			sc.deliverMsg(name, sender, &swap.CancelMessage{SwapId: sid, Message: "x"}, messages.MESSAGETYPE_CANCELED, in, id)
		case "coop":
			sc.deliverMsg(name, sender, &swap.CoopCloseMessage{SwapId: sid, Message: "x", Privkey: randHex(r, 32)}, messages.MESSAGETYPE_COOPCLOSE, in, id)
		case "otb":
			payreq := sc.env.fresh("lnsvc")
			sc.env.Decode[payreq] = DecodeRes{Hash: randHex(r, 32), Msat: amount * 1000, Cltv: 29}
			bk := ""
			if m != nil && m.Data.GetChain() == "lbtc" {
				bk = randHex(r, 32)
			}
			sc.deliverMsg(name, sender, &swap.OpeningTxBroadcastedMessage{SwapId: sid, Payreq: payreq, TxId: randHex(r, 32), ScriptOut: 0, BlindingKey: bk}, messages.MESSAGETYPE_OPENINGTXBROADCASTED, in, id)
		case "in":
			sc.deliverMsg(name, sender, &swap.SwapInAgreementMessage{ProtocolVersion: 7, SwapId: sid, Pubkey: pub, Premium: r.Range(0, 100)}, messages.MESSAGETYPE_SWAPINAGREEMENT, in, id)
		case "out":
			payreq := sc.env.fresh("lnsvcfee")
			sc.env.Decode[payreq] = DecodeRes{Hash: randHex(r, 32), Msat: 300000, Cltv: 18}
			sc.deliverMsg(name, sender, &swap.SwapOutAgreementMessage{ProtocolVersion: 7, SwapId: sid, Pubkey: pub, Payreq: payreq, Premium: r.Range(0, 100)}, messages.MESSAGETYPE_SWAPOUTAGREEMENT, in, id)
		}
	}
}

// runBlockedRPC: SwapOut (Bitcoin) is suspended right after lockSwap (the fake wallet blocks in
// GetNetwork), a peer's swap_in_request for the same channel is handled meanwhile, then SwapOut resumes.
// The composite is not compared with the (sequential) model; the monitors see the resulting node.
func (sc *svcScen) runBlockedRPC(ch, peer string, amount uint64) {
	e := sc.env
	e.suspAtStep = e.PeerSuspicious
	e.beginStep(Plan{}, "Spendable", "Probe")
	blk, called := make(chan struct{}), make(chan struct{})
	e.svc = SvcPlan{BlockNetwork: blk, NetworkCalled: called}
	done := make(chan error, 1)
	go func() {
		defer func() { recover() }()
		_, err := sc.node.svc.SwapOut(peer, "btc", ch, "03"+strings.Repeat("ab", 32), amount, 10000)
		done <- err
	}()
	reached := false
	select {
	case <-called:
		reached = true
	case <-time.After(3 * time.Second):
	}
	if reached {
		id := swap.NewSwapId()
		pub := hex.EncodeToString(sc.keys[sc.peers[0]].PubKey().SerializeCompressed())
		msg := &swap.SwapInRequestMessage{ProtocolVersion: 7, SwapId: id, Asset: lbtcAssetHex, Scid: ch, Amount: amount, Pubkey: pub, PremiumLimit: 1000000}
		payload, _ := json.Marshal(msg)
		func() {
			defer func() { recover() }()
			sc.node.msgr.handler(sc.peers[1], hexType(messages.MESSAGETYPE_SWAPINREQUEST), payload)
		}()
		sc.known = append(sc.known, id.String())
	}
	close(blk)
	select {
	case <-done:
	case <-time.After(5 * time.Second):
	}
	e.svc = SvcPlan{}
	sc.ops = append(sc.ops, svcOp{Kind: "rpc_out_blocked", Term: "SvReset", World: sc.svcWorldTerm(svcWorldIn{canSpend: true}, nil), Result: "SOk",
		Effects: nil, Node: sc.nodeTerm(),
		JS: map[string]interface{}{"op": "rpc_out_blocked", "reached_lock": reached, "active": sc.node.svc.VerifActiveIds()}})
}

func (sc *svcScen) runOpRPC(name string, out bool, peer, chain, ch string, amount uint64, ppm int64, in svcWorldIn, created **swap.SwapStateMachine) {
	self := "03" + strings.Repeat("ab", 32)
	var newID string
	before := map[string]bool{}
	for _, id := range sc.node.svc.VerifActiveIds() {
		before[id] = true
	}
	// SwapOut / SwapIn take the network from the Bitcoin wallet (GetNetwork), the asset from the Liquid wallet
	asset, network := "", sc.env.BtcNetwork
	if chain == "lbtc" {
		asset, network = lbtcAssetHex, ""
	}
	limit := premium.NewPPM(ppm).Compute(amount)
	term := func(pubkey string) string {
		return fmt.Sprintf("SvRpc (mkRpc %s %s %s %s %s %s %s %s %s)", CoqBool(out), CoqStr(peer), CoqStr(self), CoqStr(ch), CoqZu(amount),
			CoqStr(asset), CoqStr(network), CoqStr(pubkey), CoqZ(limit))
	}
	// the term needs the pubkey/id of the swap the call creates: patch after the call
	idx := len(sc.ops)
	pre := []string{"Spendable"}
	if !out {
		pre = []string{"Balance", "FeeEst"}
	}
	sc.runOp(name, "PENDING", in, pre, func() string {
		for _, id := range sc.node.svc.VerifActiveIds() {
			if !before[id] {
				newID = id
			}
		}
		if newID == "" && *created != nil {
			newID = (*created).SwapId.String()
		}
		return newID
	}, func() error {
		var err error
		if out {
			*created, err = sc.node.svc.SwapOut(peer, chain, ch, self, amount, ppm)
		} else {
			*created, err = sc.node.svc.SwapIn(peer, chain, ch, self, amount, ppm)
		}
		return err
	})
	op := &sc.ops[idx]
	pubkey, priv := "", ""
	var d *swap.SwapData
	if newID != "" {
		sc.known = append(sc.known, newID)
		if m := sc.node.svc.VerifActiveSwap(newID); m != nil {
			d = m.Data
		} else if m, err := sc.node.store.GetData(newID); err == nil {
			d = m.Data
		}
	}
	if d != nil {
		priv = hex.EncodeToString(d.PrivkeyBytes)
		pubkey = hex.EncodeToString(d.GetPrivkey().PubKey().SerializeCompressed())
	}
	in.freshPriv, in.freshID = priv, newID
	op.Term = term(pubkey)
	op.World = sc.svcWorldTerm(in, d)
}
