package main

// C22: directed state-machine scenarios around the announcement of the opening transaction:
// every way a maker leaves the wait for the taker's reaction (payment, cancel, coop_close, CSV,
// invalid message), restarts in the live states, a refused / failing announcement, late timers.
func init() {
	registerDirectedFor("C22",
		directed{"out_receiver", "btc", []string{"request", "paid_fee", "paid_claim"}},
		directed{"out_receiver", "lbtc", []string{"request", "paid_fee", "cancel", "csv"}},
		directed{"out_receiver", "btc", []string{"request", "paid_fee", "coop"}},
		directed{"out_receiver", "btc", []string{"request", "paid_fee", "csv"}},
		directed{"out_receiver", "lbtc", []string{"request", "paid_fee", "restart", "paid_claim"}},
		directed{"out_receiver", "btc", []string{"request", "paid_fee", "restart", "restart", "csv"}},
		directed{"in_sender", "btc", []string{"start", "in_agreement", "paid_claim"}},
		directed{"in_sender", "lbtc", []string{"start", "in_agreement", "coop"}},
		directed{"in_sender", "btc", []string{"start", "in_agreement", "cancel", "coop"}},
		directed{"in_sender", "lbtc", []string{"start", "in_agreement", "timeout", "csv"}},
		directed{"in_sender", "btc", []string{"start", "in_agreement", "restart", "cancel", "csv"}},
		directed{"in_sender", "btc", []string{"start", "in_agreement", "duplicate", "paid_claim"}},
		// finding C22-F1 (root cause D10): the peer announces an opening transaction before the maker
		// built one; the maker then retransmits its stale NextMessage instead of opening_tx_broadcasted
		directed{"in_sender", "btc", []string{"start", "otb", "in_agreement"}},
		directed{"out_receiver", "lbtc", []string{"request", "otb", "paid_fee"}},
		// the swap moves on although the action of the next state fails: the CSV has passed but the wallet cannot
		// build / broadcast the refund (once, several times, for good); a coop_close whose spend fails
		directed{"out_receiver", "btc", []string{"request", "paid_fee", "spend=fail1:csv"}},
		directed{"out_receiver", "lbtc", []string{"request", "paid_fee", "spend=fail3:csv", "csv"}},
		directed{"in_sender", "btc", []string{"start", "in_agreement", "spend=fail2:csv", "restart"}},
		directed{"in_sender", "lbtc", []string{"start", "in_agreement", "spend=fail25:csv"}},
		directed{"in_sender", "btc", []string{"start", "in_agreement", "spend=fail1:coop", "csv"}},
		directed{"out_receiver", "btc", []string{"request", "paid_fee", "cancel", "spend=fail2:csv"}},
	)
}
