package main

// C03, Liquid part: the REAL onchain.LiquidOnChain
// (Create{Preimage,Csv,Coop}SpendingTransaction) with go-elements confidential
// transactions against a fake wallet daemon.  Opening transactions carry real
// blinded outputs (range proofs made with go-elements); every spending
// transaction handed to the wallet for broadcast is parsed, its receiver output
// is unblinded with the wallet's blinding key, the proofs are verified, the
// commitments are checked to balance and the signatures are verified against
// the Elements segwit-v0 digest over the spent output's value commitment.

import (
	"bytes"
	"crypto/sha256"
	"encoding/hex"
	"errors"
	"fmt"
	"io"
	stdlog "log"
	"strings"

	"github.com/btcsuite/btcd/btcec/v2"
	"github.com/btcsuite/btcd/txscript"
	"github.com/elementsproject/peerswap/onchain"
	"github.com/elementsproject/peerswap/swap"
	"github.com/vulpemventures/go-elements/address"
	"github.com/vulpemventures/go-elements/confidential"
	"github.com/vulpemventures/go-elements/elementsutil"
	"github.com/vulpemventures/go-elements/network"
	"github.com/vulpemventures/go-elements/payment"
	"github.com/vulpemventures/go-elements/transaction"
)

var c03LNet = &network.Regtest

func c03Quiet() func() {
	old := stdlog.Writer()
	stdlog.SetOutput(io.Discard)
	return func() { stdlog.SetOutput(old) }
}

func c03PolicyAsset() []byte { // 32 bytes, as in outputs (reversed id)
	b, _ := hex.DecodeString(c03LNet.AssetID)
	return elementsutil.ReverseBytes(b)
}

func c03Scalar(r *Rng) []byte {
	b := c03RandBytes(r, 32)
	b[0] &= 0x7f
	b[31] |= 1
	return b
}

// ---------- fake Liquid wallet daemon

type c03LWallet struct {
	addr      string
	addrFail  bool
	fee       uint64
	feeFail   bool
	bcastFail bool
	// opening transaction the wallet produces (C08)
	mkOpening func(p *swap.OpeningParams, asset []byte) (string, string, uint64, error)
	// observations
	broadcasts []string
	feeSizes   []int64
	openAddr   string
}

func (w *c03LWallet) GetAddress() (string, error) {
	if w.addrFail {
		return "", errors.New("fake: no address")
	}
	return w.addr, nil
}
func (w *c03LWallet) SendToAddress(string, uint64) (string, error) { return "", errors.New("fake") }
func (w *c03LWallet) GetBalance() (uint64, error)                  { return 0, nil }
func (w *c03LWallet) CreateAndBroadcastTransaction(p *swap.OpeningParams, asset []byte) (string, string, uint64, error) {
	w.openAddr = p.OpeningAddress
	if w.mkOpening == nil {
		return "", "", 0, errors.New("fake wallet: not broadcasting")
	}
	return w.mkOpening(p, asset)
}
func (w *c03LWallet) SendRawTx(raw string) (string, error) {
	if w.bcastFail {
		return "", errors.New("fake: rejected")
	}
	tx, err := transaction.NewTxFromHex(raw)
	if err != nil {
		return "", err
	}
	w.broadcasts = append(w.broadcasts, raw)
	return tx.TxHash().String(), nil
}
func (w *c03LWallet) GetFee(sz int64) (uint64, error) {
	w.feeSizes = append(w.feeSizes, sz)
	if w.feeFail {
		return 0, errors.New("fake: no fee estimate")
	}
	return w.fee, nil
}
func (w *c03LWallet) SetLabel(string, string, string) error { return nil }
func (w *c03LWallet) Ping() (bool, error)                   { return true, nil }

// ---------- building confidential outputs

type c03LOut struct {
	out   *transaction.TxOutput
	value uint64
	asset []byte
	abf   []byte
	vbf   []byte
}

// c03BlindOut builds an output of [value] of [asset] to [script], blinded for blindPub.
func c03BlindOut(r *Rng, value uint64, asset, script []byte, blindPub *btcec.PublicKey) (*c03LOut, error) {
	abf, vbf := c03Scalar(r), c03Scalar(r)
	ac, err := confidential.AssetCommitment(asset, abf)
	if err != nil {
		return nil, err
	}
	vc, err := confidential.ValueCommitment(value, ac, vbf)
	if err != nil {
		return nil, err
	}
	eph, _ := btcec.PrivKeyFromBytes(c03Scalar(r))
	nonce, err := confidential.NonceHash(blindPub.SerializeCompressed(), eph.Serialize())
	if err != nil {
		return nil, err
	}
	var vbf32 [32]byte
	copy(vbf32[:], vbf)
	rp, err := confidential.RangeProof(confidential.RangeProofArgs{Value: value, Nonce: nonce, Asset: asset, AssetBlindingFactor: abf,
		ValueBlindFactor: vbf32, ValueCommit: vc, ScriptPubkey: script, Exp: 0, MinBits: 52})
	if err != nil {
		return nil, err
	}
	return &c03LOut{out: &transaction.TxOutput{Asset: ac, Value: vc, Script: script, Nonce: eph.PubKey().SerializeCompressed(), RangeProof: rp},
		value: value, asset: asset, abf: abf, vbf: vbf}, nil
}

func c03ExplicitOut(value uint64, asset33, script []byte) *transaction.TxOutput {
	v, _ := elementsutil.ValueToBytes(value)
	return transaction.NewTxOutput(asset33, v, script)
}

func c03LP2wpkhScript(r *Rng) []byte {
	return append([]byte{0x00, 0x14}, c03RandBytes(r, 20)...)
}

// layouts of the Liquid opening transaction
const (
	c03LLaySwapFirst = iota // swap, change, fee
	c03LLaySwapMiddle       // change, swap, fee
	c03LLaySwapLast         // change, fee, swap
	c03LLayEqualChangeFirst // change of the same amount, swap, fee
	c03LLayExplicitSwap     // unblinded swap output
	c03LLayWrongAmount      // swap script, other amount
	c03LLayWrongAsset       // swap script, other asset
	c03LLayShadowed         // a wrong-amount output with the swap script before the right one
	c03LLayNoSwap           // no output with the swap script
	c03LLayOtherKey         // swap output blinded for another key
	c03NLLayouts
)

var c03LLayNames = []string{"swap-first", "swap-middle", "swap-last", "equal-change-first", "explicit-swap", "wrong-amount", "wrong-asset",
	"shadowed", "no-swap-output", "other-blinding-key"}

func c03LGenOpening(r *Rng, lay int, amount uint64, want []byte, blindPub *btcec.PublicKey) (*transaction.Transaction, error) {
	policy := c03PolicyAsset()
	policy33 := append([]byte{0x01}, policy...)
	tx := transaction.NewTx(2)
	nin := 1 + r.Intn(2)
	for i := 0; i < nin; i++ {
		tx.AddInput(transaction.NewTxInput(c03RandBytes(r, 32), uint32(r.Intn(3))))
	}
	otherKey, _ := btcec.PrivKeyFromBytes(c03Scalar(r))
	mk := func(v uint64, asset, script []byte, pub *btcec.PublicKey) (*transaction.TxOutput, error) {
		o, err := c03BlindOut(r, v, asset, script, pub)
		if err != nil {
			return nil, err
		}
		return o.out, nil
	}
	changeAmt := uint64(r.Range(1000, 3000000))
	if changeAmt == amount {
		changeAmt++
	}
	swapOut, err := mk(amount, policy, want, blindPub)
	if err != nil {
		return nil, err
	}
	change, err := mk(changeAmt, policy, c03LP2wpkhScript(r), otherKey.PubKey())
	if err != nil {
		return nil, err
	}
	fee := c03ExplicitOut(uint64(r.Range(30, 500)), policy33, []byte{})
	var outs []*transaction.TxOutput
	switch lay {
	case c03LLaySwapFirst:
		outs = []*transaction.TxOutput{swapOut, change, fee}
	case c03LLaySwapMiddle:
		outs = []*transaction.TxOutput{change, swapOut, fee}
	case c03LLaySwapLast:
		outs = []*transaction.TxOutput{change, fee, swapOut}
	case c03LLayEqualChangeFirst:
		eq, err := mk(amount, policy, c03LP2wpkhScript(r), otherKey.PubKey())
		if err != nil {
			return nil, err
		}
		outs = []*transaction.TxOutput{eq, swapOut, fee}
	case c03LLayExplicitSwap:
		outs = []*transaction.TxOutput{change, c03ExplicitOut(amount, policy33, want), fee}
	case c03LLayWrongAmount:
		o, err := mk(amount+uint64(PickI(r, []int64{1, 1000})), policy, want, blindPub)
		if err != nil {
			return nil, err
		}
		outs = []*transaction.TxOutput{o, change, fee}
	case c03LLayWrongAsset:
		o, err := mk(amount, bytes.Repeat([]byte{0x42}, 32), want, blindPub)
		if err != nil {
			return nil, err
		}
		outs = []*transaction.TxOutput{change, o, fee}
	case c03LLayShadowed:
		o, err := mk(amount+7, policy, want, blindPub)
		if err != nil {
			return nil, err
		}
		outs = []*transaction.TxOutput{o, swapOut, fee}
	case c03LLayNoSwap:
		outs = []*transaction.TxOutput{change, fee}
	case c03LLayOtherKey:
		o, err := mk(amount, policy, want, otherKey.PubKey())
		if err != nil {
			return nil, err
		}
		outs = []*transaction.TxOutput{o, change, fee}
	}
	for _, o := range outs {
		tx.AddOutput(o)
	}
	return tx, nil
}

// the oracle answers the model needs about one output of the opening transaction:
// what unblinding with the swap's blinding key yields and how it relates to the policy asset
func c03LOutTerm(o *transaction.TxOutput, blindKey *btcec.PrivateKey) string {
	policy := c03PolicyAsset()
	policy33 := append([]byte{0x01}, policy...)
	conf := o.IsConfidential()
	u, err := confidential.UnblindOutputWithKey(o, blindKey.Serialize())
	ub := "None"
	if err == nil {
		commitOK := false
		if conf {
			ac, e := confidential.AssetCommitment(u.Asset, u.AssetBlindingFactor)
			commitOK = e == nil && bytes.Equal(ac, o.Asset)
		}
		ub = fmt.Sprintf("(Some (mk_unb %s %s %s))", CoqZu(u.Value), CoqBool(bytes.Equal(u.Asset, policy)), CoqBool(commitOK))
	}
	return fmt.Sprintf("mk_lout %s %s %s %s", coqBytes(o.Script), CoqBool(conf), CoqBool(bytes.Equal(o.Asset, policy33)), ub)
}

// scalar offset value*abf + vbf (mod n)
func c03Offset(value uint64, abf, vbf []byte) btcec.ModNScalar {
	var a, v, b btcec.ModNScalar
	a.SetByteSlice(abf)
	b.SetByteSlice(vbf)
	var vb [32]byte
	for i := 0; i < 8; i++ {
		vb[31-i] = byte(value >> (8 * uint(i)))
	}
	v.SetBytes(&vb)
	a.Mul(&v)
	a.Add(&b)
	return a
}

func c03LiquidCase(cf *CaseFile, r *Rng, idx int, directed int) error {
	keys := c03Keys{c02RandKey(r), c02RandKey(r), c02RandKey(r)}
	kind := idx % 3
	chainID := 1 + (idx/3)%2 // C02 chain ids: 1 = Liquid protocol 7 (csv 10080), 2 = legacy Liquid (csv 60)
	lay := r.Intn(c03NLLayouts)
	if r.Chance(50) {
		lay = r.Intn(5)
	}
	amount := uint64(r.Range(5000, 20000000))
	fee := uint64(r.Range(20, 900))
	feeFail := false
	if directed >= 3*c03NLLayouts {
		// boundary: the fee eats the whole amount (zero-value output), blinded and explicit swap output
		kind, chainID = directed%3, 1+directed%2
		lay = []int{c03LLayExplicitSwap, c03LLaySwapFirst}[(directed/3)%2]
		fee = amount
	} else if directed >= 0 {
		kind, lay = directed%3, (directed/3)%c03NLLayouts
		chainID = 1 + (directed/3)%2
	} else {
		switch r.Intn(12) {
		case 0:
			fee = 0
		case 1:
			feeFail = true
		case 2:
			fee = amount
		case 3:
			fee = amount + uint64(r.Range(1, 1000))
		case 4:
			fee = amount - 1
		}
	}
	csv := uint32(10080)
	if chainID == 2 {
		csv = 60
	}
	pre := c03RandBytes(r, 32)
	preStr := hex.EncodeToString(pre)
	hash := sha256.Sum256(pre)
	preOK := true
	claimWho, takerWho := 0, 0
	if kind != 0 {
		claimWho = 1
	}
	addrFail, bcastFail, unconfAddr := false, false, false
	if directed < 0 {
		switch r.Intn(24) {
		case 0:
			preStr = hex.EncodeToString(c03RandBytes(r, 32))
			preOK = false
		case 1:
			preStr = preStr[:62]
			preOK = false
		case 2:
			claimWho = PickI3(r, claimWho)
		case 3:
			takerWho = 1 + r.Intn(2)
		case 4:
			addrFail = true
		case 5:
			bcastFail = true
		case 6:
			unconfAddr = true
		}
	}
	blindKey, _ := btcec.PrivKeyFromBytes(c03Scalar(r))
	params := &swap.OpeningParams{TakerPubkey: hex.EncodeToString(keys.taker.PubKey().SerializeCompressed()),
		MakerPubkey: hex.EncodeToString(keys.maker.PubKey().SerializeCompressed()), ClaimPaymentHash: hex.EncodeToString(hash[:]),
		Amount: amount, CSV: csv, BlindingKey: blindKey}
	redeem, err := onchain.ParamsToTxScript(params, csv)
	if err != nil {
		return err
	}
	want := c03P2wsh(redeem)
	opening, err := c03LGenOpening(r, lay, amount, want, blindKey.PubKey())
	if err != nil {
		return err
	}
	openingHex, err := opening.ToHex()
	if err != nil {
		return err
	}

	// wallet address: confidential P2WPKH with a blinding key the harness knows
	wKey, _ := btcec.PrivKeyFromBytes(c03Scalar(r))
	wBlind, _ := btcec.PrivKeyFromBytes(c03Scalar(r))
	pay := payment.FromPublicKey(wKey.PubKey(), c03LNet, wBlind.PubKey())
	addr, err := pay.ConfidentialWitnessPubKeyHash()
	if err != nil {
		return err
	}
	if unconfAddr {
		addr, _ = pay.WitnessPubKeyHash()
	}
	addrScript, err := address.ToOutputScript(addr)
	if err != nil {
		return err
	}
	wallet := &c03LWallet{addr: addr, addrFail: addrFail, fee: fee, feeFail: feeFail, bcastFail: bcastFail}
	chain := onchain.NewLiquidOnChain(wallet, c03LNet)

	var calls []c03SigCall
	keyOf := func(who int) *btcec.PrivateKey {
		switch who {
		case 0:
			return keys.taker
		case 1:
			return keys.maker
		}
		return keys.other
	}
	claimSigner := &c03Signer{key: keyOf(claimWho), who: claimWho, calls: &calls}
	takerSigner := &c03Signer{key: keyOf(takerWho), who: takerWho, calls: &calls}
	cp := &swap.ClaimParams{Preimage: preStr, Signer: claimSigner, OpeningTxHex: openingHex}

	valid, verr := chain.ValidateTx(params, openingHex)
	validated := valid && verr == nil

	result := 0
	var rTxid, rHex, rAddr string
	func() {
		defer func() {
			if p := recover(); p != nil {
				result = 2
			}
		}()
		var e error
		switch kind {
		case 0:
			rTxid, rHex, rAddr, e = chain.CreatePreimageSpendingTransaction(params, cp)
		case 1:
			rTxid, rHex, rAddr, e = chain.CreateCsvSpendingTransaction(params, cp)
		default:
			rTxid, rHex, rAddr, e = chain.CreateCoopSpendingTransaction(params, cp, takerSigner)
		}
		if e != nil {
			result = 1
		}
	}()

	policy := c03PolicyAsset()
	policy33 := append([]byte{0x01}, policy...)
	var txTerms []string
	var jsTxs []interface{}
	var callTerms []string
	retTxidOK, retHexOK := false, false
	for bi, raw := range wallet.broadcasts {
		t, err := transaction.NewTxFromHex(raw)
		if err != nil {
			return fmt.Errorf("broadcast Liquid transaction does not parse: %v", err)
		}
		if bi == 0 {
			retTxidOK = rTxid == t.TxHash().String()
			retHexOK = rHex == raw
		}
		// which opening output does input 0 spend
		var prev *transaction.TxOutput
		var prevU *confidential.UnblindOutputResult
		if len(t.Inputs) >= 1 {
			oh := opening.TxHash()
			if bytes.Equal(t.Inputs[0].Hash, oh[:]) && int(t.Inputs[0].Index) < len(opening.Outputs) {
				prev = opening.Outputs[t.Inputs[0].Index]
				prevU, _ = confidential.UnblindOutputWithKey(prev, blindKey.Serialize())
			}
		}
		ins := make([]string, len(t.Inputs))
		jsIns := []interface{}{}
		for i, in := range t.Inputs {
			h, _ := chainhashFromBytes(in.Hash)
			ins[i] = fmt.Sprintf("mk_in %s %d%%Z %d%%Z %s", CoqStr(h), in.Index, in.Sequence, c03CoqWitness(in.Witness, calls))
			ws := []string{}
			for _, it := range in.Witness {
				ws = append(ws, hex.EncodeToString(it))
			}
			jsIns = append(jsIns, map[string]interface{}{"txid": h, "vout": in.Index, "sequence": in.Sequence, "witness": ws})
		}
		outs := make([]string, len(t.Outputs))
		jsOuts := []interface{}{}
		balanced := false
		for i, o := range t.Outputs {
			expl, unb, proofs := "None", "None", false
			js := map[string]interface{}{"script": hex.EncodeToString(o.Script), "confidential": o.IsConfidential()}
			if !o.IsConfidential() {
				v, e := elementsutil.ValueFromBytes(o.Value)
				if e == nil {
					expl = fmt.Sprintf("(Some (%s, %s))", CoqZu(v), CoqBool(bytes.Equal(o.Asset, policy33)))
					js["explicit_value"] = v
				}
			} else {
				u, e := confidential.UnblindOutputWithKey(o, wBlind.Serialize())
				if e == nil {
					unb = fmt.Sprintf("(Some (%s, %s))", CoqZu(u.Value), CoqBool(bytes.Equal(u.Asset, policy)))
					js["value_unblinded_with_wallet_key"] = u.Value
					proofs = confidential.VerifyRangeProof(o.Value, o.Asset, o.Script, o.RangeProof)
					if prevU != nil {
						proofs = proofs && confidential.VerifySurjectionProof(confidential.VerifySurjectionProofArgs{
							InputAssets: [][]byte{prevU.Asset}, InputAssetBlindingFactors: [][]byte{prevU.AssetBlindingFactor},
							OutputAsset: u.Asset, OutputAssetBlindingFactor: u.AssetBlindingFactor, Proof: o.SurjectionProof})
					} else {
						proofs = false
					}
					if i == 0 && prevU != nil && len(t.Outputs) == 2 && !t.Outputs[1].IsConfidential() {
						f, e := elementsutil.ValueFromBytes(t.Outputs[1].Value)
						a := c03Offset(prevU.Value, prevU.AssetBlindingFactor, prevU.ValueBlindingFactor)
						b := c03Offset(u.Value, u.AssetBlindingFactor, u.ValueBlindingFactor)
						balanced = e == nil && prevU.Value == u.Value+f && u.Value+f >= f && a.Equals(&b) &&
							bytes.Equal(u.Asset, prevU.Asset)
					}
				}
			}
			js["proofs_verify"] = proofs
			outs[i] = fmt.Sprintf("mk_lo %s %s %s %s", coqBytes(o.Script), expl, unb, CoqBool(proofs))
			jsOuts = append(jsOuts, js)
		}
		txTerms = append(txTerms, fmt.Sprintf("(mk_ltx %s %s %s %d%%Z %s)", CoqZ(int64(t.Version)), CoqList(ins), CoqList(outs), t.Locktime, CoqBool(balanced)))
		jsTxs = append(jsTxs, map[string]interface{}{"version": t.Version, "locktime": t.Locktime, "inputs": jsIns, "outputs": jsOuts, "commitments_balance": balanced})
		if bi == 0 {
			for _, c := range calls {
				pa, co := false, false
				// the digest the node is meant to sign: over the value commitment of the validated output
				if vi, e := chain.FindVout(opening.Outputs, redeem); e == nil {
					d := t.HashForWitnessV0(0, redeem, opening.Outputs[vi].Value, txscript.SigHashAll)
					pa = bytes.Equal(c.hash, d[:])
				}
				if prev != nil && len(t.Inputs[0].Witness) > 0 {
					wit := t.Inputs[0].Witness
					d := t.HashForWitnessV0(0, wit[len(wit)-1], prev.Value, txscript.SigHashAll)
					co = bytes.Equal(c.hash, d[:])
				}
				callTerms = append(callTerms, fmt.Sprintf("mk_call %d%%N %s %s", c.who, CoqBool(pa), CoqBool(co)))
			}
		}
	}
	if len(wallet.broadcasts) == 0 {
		for _, c := range calls {
			callTerms = append(callTerms, fmt.Sprintf("mk_call %d%%N false false", c.who))
		}
	}
	retAddrOK := rAddr == addr

	outTerms := make([]string, len(opening.Outputs))
	for i, o := range opening.Outputs {
		outTerms[i] = c03LOutTerm(o, blindKey)
	}
	addrTerm := "None"
	if !addrFail {
		addrTerm = fmt.Sprintf("(Some (%s, %s))", coqBytes(addrScript), CoqBool(!unconfAddr))
	}
	feeTerm := "None"
	if !feeFail {
		feeTerm = "(Some " + CoqZu(fee) + ")"
	}
	oh := opening.TxHash()
	in := fmt.Sprintf("(mk_lbtc_in %d%%N %d%%N %s %s %s %s %d%%Z %s %s %s %s %s %s %s %s %d%%N %d%%N)",
		kind, chainID, CoqStr(params.TakerPubkey), CoqStr(params.MakerPubkey), CoqStr(params.ClaimPaymentHash), CoqZu(amount), csv,
		CoqStr(oh.String()), CoqList(outTerms), coqBytes(want), CoqStr(preStr), CoqBool(preOK), addrTerm, feeTerm, CoqBool(bcastFail), claimWho, takerWho)
	ob := fmt.Sprintf("(mk_lbtc_obs %d%%N %s %s %s %s %s %s)", result, CoqBool(validated), CoqList(txTerms), CoqList(callTerms),
		CoqBool(retTxidOK), CoqBool(retHexOK), CoqBool(retAddrOK))
	kindName := []string{"preimage", "csv", "coop"}[kind]
	k := fmt.Sprintf("lbtc:%s:%s:csv%d:res%d", kindName, c03LLayNames[lay], csv, result)
	key := fmt.Sprintf("lbtc|%d|%d|%d|%d|%d|%v|%d|%v%v%v|%d%d|%v", kind, chainID, lay, amount, fee, feeFail, result, addrFail, bcastFail, unconfAddr, claimWho, takerWho, preOK)
	cf.Add("C03Lbtc "+in+" "+ob, key, result == 0 || lay >= 3, k, map[string]interface{}{
		"family": "lbtc", "kind": kindName, "layout": c03LLayNames[lay], "csv": csv,
		"params": map[string]interface{}{"taker": params.TakerPubkey, "maker": params.MakerPubkey, "hash": params.ClaimPaymentHash, "amount": amount,
			"blinding_key": hex.EncodeToString(blindKey.Serialize())},
		"opening_tx_hex": openingHex, "preimage": preStr, "wallet_address": addr, "wallet_fee": fee, "wallet_fee_error": feeFail,
		"claim_signer": claimWho, "taker_signer": takerWho, "addr_fail": addrFail, "broadcast_fail": bcastFail,
		"observed": map[string]interface{}{"result": []string{"ok", "error", "panic"}[result], "validator_accepts_opening": validated,
			"broadcast": jsTxs, "returned_txid_is_broadcast_txid": retTxidOK, "returned_txid": rTxid, "fee_sizes_asked": wallet.feeSizes},
	})
	return nil
}

func chainhashFromBytes(b []byte) (string, error) {
	// txid as displayed: reversed bytes
	return hex.EncodeToString(elementsutil.ReverseBytes(b)), nil
}

func c03LiquidFamily(cf *CaseFile, r *Rng, n int) error {
	for d := 0; d < 3*c03NLLayouts+6; d++ {
		if err := c03LiquidCase(cf, r, d, d); err != nil {
			return err
		}
	}
	for i := 0; i < n; i++ {
		if err := c03LiquidCase(cf, r, i, -1); err != nil {
			return err
		}
	}
	return nil
}

// c03DumpLiquid probes the constants of the Liquid spend builder on the running code.
func c03DumpLiquid(b *strings.Builder) error {
	restore := c03Quiet()
	defer restore()
	r := NewRng(11)
	keys := c03Keys{c02RandKey(r), c02RandKey(r), c02RandKey(r)}
	pre := c03RandBytes(r, 32)
	hash := sha256.Sum256(pre)
	blindKey, _ := btcec.PrivKeyFromBytes(c03Scalar(r))
	params := &swap.OpeningParams{TakerPubkey: hex.EncodeToString(keys.taker.PubKey().SerializeCompressed()),
		MakerPubkey: hex.EncodeToString(keys.maker.PubKey().SerializeCompressed()), ClaimPaymentHash: hex.EncodeToString(hash[:]),
		Amount: 100000, CSV: 4242, BlindingKey: blindKey}
	redeem, err := onchain.ParamsToTxScript(params, params.CSV)
	if err != nil {
		return err
	}
	opening, err := c03LGenOpening(r, c03LLaySwapFirst, params.Amount, c03P2wsh(redeem), blindKey.PubKey())
	if err != nil {
		return err
	}
	openingHex, _ := opening.ToHex()
	wKey, _ := btcec.PrivKeyFromBytes(c03Scalar(r))
	wBlind, _ := btcec.PrivKeyFromBytes(c03Scalar(r))
	addr, _ := payment.FromPublicKey(wKey.PubKey(), c03LNet, wBlind.PubKey()).ConfidentialWitnessPubKeyHash()
	// fee placeholder: what is deducted when the wallet cannot estimate
	wallet := &c03LWallet{addr: addr, feeFail: true}
	chain := onchain.NewLiquidOnChain(wallet, c03LNet)
	var calls []c03SigCall
	cp := &swap.ClaimParams{Preimage: hex.EncodeToString(pre), Signer: &c03Signer{key: keys.maker, who: 1, calls: &calls}, OpeningTxHex: openingHex}
	if _, _, _, err := chain.CreateCsvSpendingTransaction(params, cp); err != nil {
		return err
	}
	t, err := transaction.NewTxFromHex(wallet.broadcasts[0])
	if err != nil {
		return err
	}
	ph, err := elementsutil.ValueFromBytes(t.Outputs[1].Value)
	if err != nil {
		return err
	}
	fmt.Fprintf(b, "(* probed on LiquidOnChain.CreateCsvSpendingTransaction / CreatePreimageSpendingTransaction *)\n")
	fmt.Fprintf(b, "Definition gen_lbtc_fee_placeholder : Z := %d.\n", ph)
	fmt.Fprintf(b, "Definition gen_lbtc_csv_sequence_is_params_csv : bool := %s.\n", CoqBool(t.Inputs[0].Sequence == params.CSV))
	fmt.Fprintf(b, "Definition gen_lbtc_spend_version : Z := %d.\n", t.Version)
	wallet2 := &c03LWallet{addr: addr, fee: 100}
	chain2 := onchain.NewLiquidOnChain(wallet2, c03LNet)
	cp2 := &swap.ClaimParams{Preimage: hex.EncodeToString(pre), Signer: &c03Signer{key: keys.taker, who: 0, calls: &calls}, OpeningTxHex: openingHex}
	if _, _, _, err := chain2.CreatePreimageSpendingTransaction(params, cp2); err != nil {
		return err
	}
	t2, err := transaction.NewTxFromHex(wallet2.broadcasts[0])
	if err != nil {
		return err
	}
	fmt.Fprintf(b, "Definition gen_lbtc_claim_sequence : Z := %d.\n", t2.Inputs[0].Sequence)
	return nil
}
