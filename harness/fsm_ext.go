package main

// Extension points of the fsm scenario driver, so that per-property files can add
// step names, plan overrides, crash points and record filters without editing the
// shared driver.  All registries are filled at init time; per-scenario state lives
// in maps keyed by *Scen (scenarios run in parallel).

import (
	"os"
	"strings"
	"sync"
)

// ---- step names ----
// A handler gets the full step name; it returns true when it handled the name.
type extStepHandler func(sc *Scen, name string) bool

var extStepHandlers []extStepHandler

func registerStepHandler(h extStepHandler) { extStepHandlers = append(extStepHandlers, h) }

func extStep(sc *Scen, n string) bool {
	for _, h := range extStepHandlers {
		if h(sc, n) {
			return true
		}
	}
	return false
}

// ---- per-scenario extension state ----
type extState struct {
	plan      *Plan // answers plan for the NEXT step only
	crashAt   int   // >0: the next step dies when its crashAt-th effect is about to happen
	randCrash bool  // random crash injection enabled for this scenario
	stash     []interface{}
}

var (
	extMu     sync.Mutex
	extStates = map[*Scen]*extState{}
)

func ext(sc *Scen) *extState {
	extMu.Lock()
	defer extMu.Unlock()
	s, ok := extStates[sc]
	if !ok {
		s = &extState{}
		extStates[sc] = s
	}
	return s
}

func extPlan(sc *Scen) (Plan, bool) {
	s := ext(sc)
	if s.plan == nil {
		return Plan{}, false
	}
	p := *s.plan
	s.plan = nil
	return p, true
}

// ---- hooks around one step ----
type extBeginHook func(sc *Scen, sp *stepSpec)
type extRecordHook func(sc *Scen, rec *stepRecord, panicked bool) bool

var (
	extBeginHooks  []extBeginHook
	extRecordHooks []extRecordHook
)

func registerBeginHook(h extBeginHook)   { extBeginHooks = append(extBeginHooks, h) }
func registerRecordHook(h extRecordHook) { extRecordHooks = append(extRecordHooks, h) }

func extBeginStep(sc *Scen, sp *stepSpec) {
	for _, h := range extBeginHooks {
		h(sc, sp)
	}
}

func extRecord(sc *Scen, rec *stepRecord, panicked bool) bool {
	for _, h := range extRecordHooks {
		if h(sc, rec, panicked) {
			return true
		}
	}
	return false
}

// focusIs reports whether this process was started with "-focus <id>" (available at init time).
func focusIs(id string) bool {
	for i, a := range os.Args {
		if (a == "-focus" || a == "--focus") && i+1 < len(os.Args) && os.Args[i+1] == id {
			return true
		}
		if strings.HasPrefix(a, "-focus=") && strings.TrimPrefix(a, "-focus=") == id {
			return true
		}
	}
	return false
}
