package main

// Pure-function correspondence for the timelock helpers of swap/actions.go
// (checkPaymentWindow, validateClaimInvoice) on boundary grids.

import (
	"flag"
	"fmt"

	"github.com/elementsproject/peerswap/swap"
)

func init() {
	register("timelockfn", "checkPaymentWindow / validateClaimInvoice on boundary grids", func(args []string) error {
		fs := flag.NewFlagSet("timelockfn", flag.ExitOnError)
		out := fs.String("out", "/verif/work/timelockfn", "output dir")
		seed := fs.Uint64("seed", 1, "seed")
		n := fs.Int("n", 400, "random cases per family (boundary grid always included)")
		fs.Parse(args)
		r := NewRng(*seed)
		cf := NewCaseFile("From PS Require Import Model.Data Model.Actions Model.TimelockCorr.", "tl_case", "tl_check", "tl_monitor")
		starts := []uint32{0, 1, 1000, 1 << 31, 4294967295 - 60, 4294967295 - 59, 4294967295}
		wins := []uint32{60, 30, 504, 0, 1}
		add := func(set bool, start, cur, win uint32) {
			ok := swap.VerifCheckPaymentWindow(set, start, cur, win)
			cf.Add(fmt.Sprintf("TWindow %s %d%%Z %d%%Z %d%%Z %s", CoqBool(set), start, cur, win, CoqBool(ok)),
				fmt.Sprintf("w|%v|%d|%d|%d", set, start, cur, win), true, fmt.Sprintf("window:%v", ok),
				map[string]interface{}{"fn": "checkPaymentWindow", "set": set, "start": start, "current": cur, "window": win, "ok": ok})
		}
		for _, s := range starts {
			for _, w := range wins {
				for _, d := range []int64{-2, -1, 0, 1, int64(w) - 1, int64(w), int64(w) + 1} {
					c := int64(s) + d
					if c < 0 || c > 4294967295 {
						continue
					}
					add(true, s, uint32(c), w)
					add(false, s, uint32(c), w)
				}
			}
		}
		for i := 0; i < *n; i++ {
			s := uint32(r.U64())
			if r.Chance(50) {
				s = uint32(r.Range(0, 100000))
			}
			w := PickU32(r, wins)
			c := uint32(int64(s) + r.Range(-5, int64(w)+5))
			add(r.Chance(85), s, c, w)
		}
		addInv := func(msat uint64, cltv int64, claim uint64, fin uint64) {
			ok := swap.VerifValidateClaimInvoice(msat, cltv, claim, fin)
			cf.Add(fmt.Sprintf("TInvoice %s %s %s %s %s", CoqZu(msat), CoqZ(cltv), CoqZu(claim), CoqZu(fin), CoqBool(ok)),
				fmt.Sprintf("i|%d|%d|%d|%d", msat, cltv, claim, fin), true, fmt.Sprintf("invoice:%v", ok),
				map[string]interface{}{"fn": "validateClaimInvoice", "msat": msat, "cltv": cltv, "claim_sat": claim, "final_cltv": fin, "ok": ok})
		}
		claims := []uint64{0, 1, 100000, 18446744073709551, 18446744073709552, 1 << 63, 18446744073709551615}
		for _, c := range claims {
			for _, dm := range []int64{-1, 0, 1} {
				for _, cl := range []int64{-1, 0, 28, 29, 30, 503, 504, 1 << 40, -9223372036854775808} {
					addInv(c*1000+uint64(dm), cl, c, 29)
				}
			}
		}
		for i := 0; i < *n; i++ {
			c := r.U64()
			if r.Chance(60) {
				c = uint64(r.Range(0, 10000000))
			}
			m := c * 1000
			if r.Chance(30) {
				m += uint64(r.Range(-2, 2))
			}
			addInv(m, r.Range(-2, 40), c, PickU(r, []uint64{29, 503, 0}))
		}
		return cf.Write(*out, 800, map[string]interface{}{"seed": *seed})
	})
}
