package main

// C29 — the database version changes only when no swap is active.
// Runs the REAL version.VersionService.SafeUpgrade on a real bbolt file with the
// REAL swap.SwapService.HasActiveSwaps over a real swap bboltStore filled with
// swaps in every state of the four state tables.

import (
	"bytes"
	"errors"
	"flag"
	"fmt"
	"os"
	"path/filepath"
	"sort"
	"strings"

	"github.com/elementsproject/peerswap/swap"
	"github.com/elementsproject/peerswap/version"
	"go.etcd.io/bbolt"
)

func init() {
	registerDump("SwapStatesC29.v", dumpC29)
	register("c29", "SafeUpgrade / HasActiveSwaps correspondence cases", runC29)
}

func c29StateNames() []string {
	seen := map[string]bool{}
	names := []string{}
	for _, t := range swap.VerifStateTablesC29() {
		if !seen[t.State] {
			seen[t.State] = true
			names = append(names, t.State)
		}
	}
	sort.Strings(names)
	return names
}

func c29IsFinished(state string) bool {
	return (&swap.SwapStateMachine{Current: swap.StateType(state)}).IsFinished()
}

func dumpC29() (string, error) {
	var b strings.Builder
	b.WriteString("From Coq Require Import String List.\nImport ListNotations.\nOpen Scope string_scope.\n")
	fmt.Fprintf(&b, "(* version.GetCurrentVersion() *)\nDefinition db_version_current : string := %s.\n", CoqStr(version.GetCurrentVersion()))
	rows := []string{}
	for _, t := range swap.VerifStateTablesC29() {
		rows = append(rows, fmt.Sprintf("(%s, %s, %d%%nat)", CoqStr(t.Table), CoqStr(t.State), t.Events))
	}
	fmt.Fprintf(&b, "(* every state of the four state tables with the number of events it accepts: (table, state, #events) *)\n")
	fmt.Fprintf(&b, "Definition swap_state_tables : list (string * string * nat) := [\n  %s].\n", strings.Join(rows, ";\n  "))
	fin := []string{}
	for _, n := range c29StateNames() {
		fin = append(fin, CoqPair(CoqStr(n), CoqBool(c29IsFinished(n))))
	}
	fmt.Fprintf(&b, "(* SwapStateMachine.IsFinished evaluated on every state name of the tables *)\n")
	fmt.Fprintf(&b, "Definition swap_is_finished_table : list (string * bool) := [\n  %s].\n", strings.Join(fin, ";\n  "))
	return b.String(), nil
}

type c29Swap struct {
	State   string `json:"state"`
	Corrupt bool   `json:"corrupt,omitempty"`
}

type c29Case struct {
	Kind        string    `json:"kind"`
	Stored      *string   `json:"stored"`
	Swaps       []c29Swap `json:"swaps"`
	HasActive   *bool     `json:"obs_has_active"`
	Err         int       `json:"obs_err"` // 0 ok, 1 ActiveSwapsError, 2 other
	StoredAfter *string   `json:"obs_stored_after"`
	Unchanged   bool      `json:"obs_swaps_unchanged"`
	Second      int       `json:"obs_second_err"`
}

func c29DumpBucket(db *bbolt.DB, name []byte) ([]byte, error) {
	var buf bytes.Buffer
	err := db.View(func(tx *bbolt.Tx) error {
		b := tx.Bucket(name)
		if b == nil {
			return fmt.Errorf("bucket %s missing", name)
		}
		return b.ForEach(func(k, v []byte) error {
			fmt.Fprintf(&buf, "%x=%x\n", k, v)
			return nil
		})
	})
	return buf.Bytes(), err
}

func c29ErrKind(err error) int {
	if err == nil {
		return 0
	}
	var ase version.ActiveSwapsError
	if errors.As(err, &ase) {
		return 1
	}
	return 2
}

func runC29(args []string) error {
	fs := flag.NewFlagSet("c29", flag.ExitOnError)
	out := fs.String("out", "/verif/work/C29/c29", "output dir")
	seed := fs.Uint64("seed", 1, "seed")
	n := fs.Int("n", 400, "number of random cases")
	fs.Parse(args)
	r := NewRng(*seed)
	if err := os.MkdirAll(*out, 0o755); err != nil {
		return err
	}
	dbdir := filepath.Join(*out, "db")
	os.RemoveAll(dbdir)
	if err := os.MkdirAll(dbdir, 0o755); err != nil {
		return err
	}
	defer os.RemoveAll(dbdir)

	names := c29StateNames()
	finished, active := []string{}, []string{}
	for _, s := range names {
		if c29IsFinished(s) {
			finished = append(finished, s)
		} else {
			active = append(active, s)
		}
	}
	unknown := []string{"State_Bogus", "state_claimedcsv", "State_ClaimedCsv ", "State_ClaimedCoop2", "State_SwapCanceled\n", "\xc3\xa9"}
	cur := version.GetCurrentVersion()
	storedPool := []string{cur, cur, "v0.1", "v0.3", "", "V0.2", cur + " ", cur + "0", "v0", "0.2", "v0.2.1", "\xc3\xa9"}
	types := []swap.SwapType{swap.SWAPTYPE_IN, swap.SWAPTYPE_OUT}
	roles := []swap.SwapRole{swap.SWAPROLE_SENDER, swap.SWAPROLE_RECEIVER}

	cf := NewCaseFile("From PS Require Import Model.VersionDb Model.C29Corr.", "c29_case", "c29_check", "c29_monitor")
	caseNo := 0

	runCase := func(stored *string, swaps []c29Swap) error {
		path := filepath.Join(dbdir, fmt.Sprintf("c29_%d.db", caseNo))
		caseNo++
		db, err := bbolt.Open(path, 0o600, &bbolt.Options{NoSync: true})
		if err != nil {
			return err
		}
		defer func() { db.Close(); os.Remove(path) }()
		store, err := swap.NewBboltStore(db)
		if err != nil {
			return err
		}
		for i, s := range swaps {
			if s.Corrupt {
				// a record that does not decode: written straight into the bucket
				err := db.Update(func(tx *bbolt.Tx) error {
					return tx.Bucket(swap.VerifSwapsBucketC29()).Put([]byte(fmt.Sprintf("corrupt-%d", i)), []byte("{not json"))
				})
				if err != nil {
					return err
				}
				continue
			}
			sm := &swap.SwapStateMachine{
				SwapId:   swap.NewSwapId(),
				Data:     &swap.SwapData{PeerNodeId: "02c0ffee", FSMState: swap.StateType(s.State), CreatedAt: int64(i)},
				Type:     types[r.Intn(2)],
				Role:     roles[r.Intn(2)],
				Previous: swap.StateType(PickS(r, names)),
				Current:  swap.StateType(s.State),
			}
			if err := store.UpdateData(sm); err != nil {
				return err
			}
		}
		// the version service creates its bucket; then seed the stored version through the real store
		vs, err := version.NewVersionService(db)
		if err != nil {
			return err
		}
		if stored != nil {
			if err := version.VerifSetStoredVersion(db, *stored); err != nil {
				return err
			}
		}
		services := swap.NewSwapServices(store, nil, nil, nil, nil, nil, false, nil, nil, nil, false, nil, nil, nil, nil)
		svc := swap.NewSwapService(services)

		before, err := c29DumpBucket(db, swap.VerifSwapsBucketC29())
		if err != nil {
			return err
		}
		c := &c29Case{Stored: stored, Swaps: swaps}
		if ha, err := svc.HasActiveSwaps(); err == nil {
			c.HasActive = &ha
		}
		c.Err = c29ErrKind(vs.SafeUpgrade(svc))
		after, err := c29DumpBucket(db, swap.VerifSwapsBucketC29())
		if err != nil {
			return err
		}
		c.Unchanged = bytes.Equal(before, after)
		v, ok, err := version.VerifGetStoredVersion(db)
		if err != nil {
			return err
		}
		if ok {
			c.StoredAfter = &v
		}
		// a second start on the same database
		c.Second = c29ErrKind(vs.SafeUpgrade(svc))

		anyCorrupt, anyActive := false, false
		sw := []string{}
		keyParts := []string{}
		for _, s := range swaps {
			if s.Corrupt {
				anyCorrupt = true
				sw = append(sw, "SwCorrupt")
				keyParts = append(keyParts, "!")
			} else {
				if !c29IsFinished(s.State) {
					anyActive = true
				}
				sw = append(sw, "(SwState "+CoqStr(s.State)+")")
				keyParts = append(keyParts, s.State)
			}
		}
		same := stored != nil && *stored == cur
		switch {
		case same && (anyActive || anyCorrupt):
			c.Kind = "same-version:active-or-corrupt"
		case same:
			c.Kind = "same-version"
		case anyCorrupt:
			c.Kind = "upgrade:unreadable-swap"
		case anyActive:
			c.Kind = "upgrade:blocked-by-active"
		case len(swaps) == 0:
			c.Kind = "upgrade:empty-store"
		default:
			c.Kind = "upgrade:all-terminal"
		}
		if stored == nil {
			c.Kind += ":no-version"
		}
		haTerm := "None"
		if c.HasActive != nil {
			haTerm = "(Some " + CoqBool(*c.HasActive) + ")"
		}
		term := fmt.Sprintf("C29Case %s %s %s %d%%Z %s %s %d%%Z", coqOptStr(stored), CoqList(sw), haTerm, c.Err,
			coqOptStr(c.StoredAfter), CoqBool(c.Unchanged), c.Second)
		sort.Strings(keyParts)
		key := coqOptStr(stored) + "|" + strings.Join(keyParts, ",")
		cf.Add(term, key, !same, c.Kind, c)
		return nil
	}

	sp := func(s string) *string { return &s }
	// boundary table: every state alone, against an older version, no version and the current version
	for _, s := range append(append([]string{}, names...), unknown...) {
		for _, st := range []*string{sp("v0.1"), nil, sp(cur)} {
			if err := runCase(st, []c29Swap{{State: s}}); err != nil {
				return err
			}
		}
	}
	for _, st := range []*string{sp("v0.1"), nil, sp(cur), sp("")} {
		if err := runCase(st, nil); err != nil {
			return err
		}
		if err := runCase(st, []c29Swap{{Corrupt: true}}); err != nil {
			return err
		}
		all := []c29Swap{}
		for _, s := range finished {
			all = append(all, c29Swap{State: s})
		}
		if err := runCase(st, all); err != nil {
			return err
		}
	}
	for i := 0; i < *n; i++ {
		var stored *string
		if !r.Chance(15) {
			stored = sp(PickS(r, storedPool))
		}
		k := int(r.Range(0, 8))
		swaps := []c29Swap{}
		mode := r.Intn(10)
		for j := 0; j < k; j++ {
			switch {
			case mode < 5: // all terminal
				swaps = append(swaps, c29Swap{State: PickS(r, finished)})
			case mode < 7: // terminal with exactly one active somewhere
				swaps = append(swaps, c29Swap{State: PickS(r, finished)})
			default:
				swaps = append(swaps, c29Swap{State: PickS(r, names)})
			}
		}
		if mode >= 5 && mode < 7 && k > 0 {
			swaps[r.Intn(k)] = c29Swap{State: PickS(r, active)}
		}
		if r.Chance(6) {
			swaps = append(swaps, c29Swap{State: PickS(r, unknown)})
		}
		if r.Chance(6) {
			swaps = append(swaps, c29Swap{Corrupt: true})
		}
		if err := runCase(stored, swaps); err != nil {
			return err
		}
	}
	fmt.Fprintf(os.Stderr, "c29 kinds: %v\n", cf.Kinds)
	return cf.Write(*out, 300, map[string]interface{}{"seed": *seed, "states": len(names)})
}
