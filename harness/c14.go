package main

// C14 — persisted swap records reload to identical swap data.
// Runs the REAL swap bboltStore (UpdateData / GetData / ListAll) on a temp bbolt file under -out,
// on records generated for every role/state plus extreme field values, raw (malformed) records and
// operation sequences; dumps the record type description by reflection into Gen/SwapSchema.v.

import (
	"bytes"
	"encoding"
	"encoding/hex"
	"encoding/json"
	"errors"
	"flag"
	"fmt"
	"io"
	"math/big"
	"os"
	"path/filepath"
	"reflect"
	"regexp"
	"strings"
	"unicode"
	"unicode/utf8"

	"github.com/elementsproject/peerswap/swap"
	"go.etcd.io/bbolt"
)

func init() {
	registerDump("SwapSchema.v", dumpSwapSchema)
	register("c14", "swap store records: encode/decode/store correspondence cases", runC14)
}

// ---------------------------------------------------------------- type description (reflection)

var (
	swapIdType       = reflect.TypeOf(swap.SwapId{})
	marshalerT       = reflect.TypeOf((*json.Marshaler)(nil)).Elem()
	unmarshalerT     = reflect.TypeOf((*json.Unmarshaler)(nil)).Elem()
	textMarshalerT   = reflect.TypeOf((*encoding.TextMarshaler)(nil)).Elem()
	textUnmarshalerT = reflect.TypeOf((*encoding.TextUnmarshaler)(nil)).Elem()
)

func hasCustomCodec(t reflect.Type) bool {
	for _, it := range []reflect.Type{marshalerT, unmarshalerT, textMarshalerT, textUnmarshalerT} {
		if t.Implements(it) || reflect.PointerTo(t).Implements(it) {
			return true
		}
	}
	return false
}

// the SwapId codec the model knows: pointer receiver Marshaler+Unmarshaler on a [32]byte
func isSwapId(t reflect.Type) bool {
	if t != swapIdType {
		return false
	}
	pt := reflect.PointerTo(t)
	return t.Kind() == reflect.Array && t.Len() == 32 && t.Elem().Kind() == reflect.Uint8 &&
		pt.Implements(marshalerT) && pt.Implements(unmarshalerT) && !t.Implements(marshalerT)
}

type tkind int

const (
	kBool tkind = iota
	kInt
	kStr
	kBytes
	kPtr
	kStruct
	kIface
	kSwapId
	kOpaque
)

func kindOf(t reflect.Type) tkind {
	if isSwapId(t) {
		return kSwapId
	}
	if t.Kind() == reflect.Ptr && isSwapId(t.Elem()) {
		return kPtr
	}
	if hasCustomCodec(t) {
		return kOpaque
	}
	switch t.Kind() {
	case reflect.Bool:
		return kBool
	case reflect.Int, reflect.Int8, reflect.Int16, reflect.Int32, reflect.Int64,
		reflect.Uint, reflect.Uint8, reflect.Uint16, reflect.Uint32, reflect.Uint64:
		return kInt
	case reflect.String:
		return kStr
	case reflect.Slice:
		if t.Elem().Kind() == reflect.Uint8 && !hasCustomCodec(t.Elem()) {
			return kBytes
		}
	case reflect.Ptr:
		return kPtr
	case reflect.Struct:
		return kStruct
	case reflect.Interface:
		if t.NumMethod() > 0 {
			return kIface
		}
	}
	return kOpaque
}

// isValidTag of encoding/json
func jsonValidTag(s string) bool {
	if s == "" {
		return false
	}
	for _, c := range s {
		switch {
		case strings.ContainsRune("!#$%&()*+-./:;<=>?@[]^_{|}~ ", c):
		case !unicode.IsLetter(c) && !unicode.IsDigit(c):
			return false
		}
	}
	return true
}

type fieldMeta struct {
	goName, jsonName                       string
	exported, skip, omit, quoted, embedded bool
}

func metaOf(f reflect.StructField) fieldMeta {
	m := fieldMeta{goName: f.Name, jsonName: f.Name, exported: f.IsExported(), embedded: f.Anonymous}
	tag := f.Tag.Get("json")
	if tag == "-" {
		m.skip = true
		return m
	}
	name, opts, _ := strings.Cut(tag, ",")
	if jsonValidTag(name) {
		m.jsonName = name
	}
	for _, o := range strings.Split(opts, ",") {
		switch o {
		case "omitempty":
			m.omit = true
		case "string":
			m.quoted = true
		}
	}
	return m
}

func coqMeta(m fieldMeta) string {
	return fmt.Sprintf("FM %s %s %s %s %s %s %s", CoqStr(m.goName), CoqStr(m.jsonName), CoqBool(m.exported),
		CoqBool(m.skip), CoqBool(m.omit), CoqBool(m.quoted), CoqBool(m.embedded))
}

func coqType(t reflect.Type, indent string) string {
	switch kindOf(t) {
	case kBool:
		return "TBool"
	case kInt:
		signed := t.Kind() >= reflect.Int && t.Kind() <= reflect.Int64
		return fmt.Sprintf("(TInt %s %d)", CoqBool(signed), t.Bits())
	case kStr:
		return "TStr"
	case kBytes:
		return "TBytes"
	case kPtr:
		return "(TPtr " + coqType(t.Elem(), indent) + ")"
	case kIface:
		return "(TIface " + CoqStr(t.String()) + ")"
	case kSwapId:
		return "TSwapId"
	case kStruct:
		var b strings.Builder
		fmt.Fprintf(&b, "(TStruct %s [", CoqStr(t.Name()))
		for i := 0; i < t.NumField(); i++ {
			f := t.Field(i)
			if i > 0 {
				b.WriteString(";")
			}
			ft := "(TOpaque " + CoqStr(f.Type.String()) + ")"
			if f.IsExported() {
				ft = coqType(f.Type, indent+"  ")
			}
			fmt.Fprintf(&b, "\n%s  (%s, %s)", indent, coqMeta(metaOf(f)), ft)
		}
		b.WriteString("])")
		return b.String()
	}
	return "(TOpaque " + CoqStr(t.String()) + ")"
}

func dumpSwapSchema() (string, error) {
	var b strings.Builder
	b.WriteString("From Coq Require Import String ZArith Bool List.\nFrom PS Require Import Base.Corr Model.Json Model.GoJson.\nImport ListNotations.\nOpen Scope string_scope.\n")
	b.WriteString("(* reflect description of swap.SwapStateMachine (what swap/store.go marshals), with json tags *)\n")
	fmt.Fprintf(&b, "Definition swap_machine_ty : gty :=\n  %s.\n", coqType(reflect.TypeOf(swap.SwapStateMachine{}), "  "))
	fmt.Fprintf(&b, "Definition swap_bucket_name : string := %s.\n", CoqStr(string(swap.VerifSwapBucketName())))
	b.WriteString("(* state names of the four state tables: (type, role, states) *)\n")
	b.WriteString("Definition swap_state_tables : list (Z * Z * list string) := [\n")
	for i, t := range swap.VerifStateTables() {
		if i > 0 {
			b.WriteString(";\n")
		}
		fmt.Fprintf(&b, "  (%s, %s, %s)", CoqZ(int64(t.Type)), CoqZ(int64(t.Role)), CoqStrList(t.States))
	}
	b.WriteString("].\n")
	// static scan: every place in the non-test sources that writes a field called LastMessage
	writes, err := scanFieldWrites("LastMessage")
	if err != nil {
		return "", err
	}
	b.WriteString("(* source positions (go/ast scan of all non-test files) that assign a field named LastMessage *)\n")
	fmt.Fprintf(&b, "Definition last_message_writes : list string := %s.\n", CoqStrList(writes))
	return b.String(), nil
}

// ---------------------------------------------------------------- string interning (keeps case files small)
// Long strings of one case are bound once by a let; JSON keys / state names are shard-global definitions.

type termCtx struct {
	names map[string]string
	order []string
}

var curCtx *termCtx
var globalNames = map[string]string{}
var globalOrder []string

func beginCase() { curCtx = &termCtx{names: map[string]string{}} }

func endCase(term string) string {
	var b strings.Builder
	b.WriteString("(")
	for i, s := range curCtx.order {
		fmt.Fprintf(&b, "let s%d := %s in ", i, CoqStr(s))
	}
	b.WriteString(term + ")")
	curCtx = nil
	return b.String()
}

// cs: a string that may repeat inside the case
func cs(s string) string {
	if n, ok := globalNames[s]; ok {
		return n
	}
	if curCtx == nil || len(s) < 10 {
		return CoqStr(s)
	}
	if n, ok := curCtx.names[s]; ok {
		return n
	}
	n := fmt.Sprintf("s%d", len(curCtx.order))
	curCtx.names[s] = n
	curCtx.order = append(curCtx.order, s)
	return n
}

// ck: a JSON key / state name (shared by all cases of a shard)
func ck(s string) string {
	if n, ok := globalNames[s]; ok {
		return n
	}
	if len(s) < 4 || len(s) > 80 {
		return cs(s)
	}
	n := fmt.Sprintf("gk%d", len(globalOrder))
	globalNames[s] = n
	globalOrder = append(globalOrder, s)
	return n
}

func globalDefs() string {
	var b strings.Builder
	for i, s := range globalOrder {
		fmt.Fprintf(&b, "Definition gk%d := %s.\n", i, CoqStr(s))
	}
	return b.String()
}

// ---------------------------------------------------------------- JSON value trees

type c14jnode struct {
	kind string // null bool num str arr obj
	b    bool
	num  string
	s    string
	arr  []*c14jnode
	keys []string
	vals []*c14jnode
}

var intLit = regexp.MustCompile(`^-?[0-9]+$`)

func c14parseTree(data []byte) (*c14jnode, error) {
	d := json.NewDecoder(bytes.NewReader(data))
	d.UseNumber()
	n, err := parseNode(d)
	if err != nil {
		return nil, err
	}
	if _, err := d.Token(); err != io.EOF {
		return nil, fmt.Errorf("trailing data")
	}
	return n, nil
}

func parseNode(d *json.Decoder) (*c14jnode, error) {
	tok, err := d.Token()
	if err != nil {
		return nil, err
	}
	switch v := tok.(type) {
	case nil:
		return &c14jnode{kind: "null"}, nil
	case bool:
		return &c14jnode{kind: "bool", b: v}, nil
	case json.Number:
		return &c14jnode{kind: "num", num: string(v)}, nil
	case string:
		return &c14jnode{kind: "str", s: v}, nil
	case json.Delim:
		if v == '[' {
			n := &c14jnode{kind: "arr"}
			for d.More() {
				c, err := parseNode(d)
				if err != nil {
					return nil, err
				}
				n.arr = append(n.arr, c)
			}
			_, err := d.Token()
			return n, err
		}
		if v == '{' {
			n := &c14jnode{kind: "obj"}
			for d.More() {
				kt, err := d.Token()
				if err != nil {
					return nil, err
				}
				k, ok := kt.(string)
				if !ok {
					return nil, fmt.Errorf("key")
				}
				c, err := parseNode(d)
				if err != nil {
					return nil, err
				}
				n.keys = append(n.keys, k)
				n.vals = append(n.vals, c)
			}
			_, err := d.Token()
			return n, err
		}
	}
	return nil, fmt.Errorf("unexpected token %v", tok)
}

func (n *c14jnode) coq() string {
	switch n.kind {
	case "null":
		return "JNull"
	case "bool":
		return "(JBool " + CoqBool(n.b) + ")"
	case "num":
		if intLit.MatchString(n.num) {
			z, _ := new(big.Int).SetString(n.num, 10)
			return "(JNum " + CoqZbig(z) + ")"
		}
		return "JNumBad"
	case "str":
		return "(JStr " + cs(n.s) + ")"
	case "arr":
		xs := make([]string, len(n.arr))
		for i, c := range n.arr {
			xs[i] = c.coq()
		}
		return "(JArr " + CoqList(xs) + ")"
	case "obj":
		xs := make([]string, len(n.keys))
		for i := range n.keys {
			xs[i] = "(" + ck(n.keys[i]) + ", " + n.vals[i].coq() + ")"
		}
		return "(JObj " + CoqList(xs) + ")"
	}
	return "JNull"
}

func (n *c14jnode) bytes(b *bytes.Buffer) {
	switch n.kind {
	case "null":
		b.WriteString("null")
	case "bool":
		if n.b {
			b.WriteString("true")
		} else {
			b.WriteString("false")
		}
	case "num":
		b.WriteString(n.num)
	case "str":
		s, _ := json.Marshal(n.s)
		b.Write(s)
	case "arr":
		b.WriteByte('[')
		for i, c := range n.arr {
			if i > 0 {
				b.WriteByte(',')
			}
			c.bytes(b)
		}
		b.WriteByte(']')
	case "obj":
		b.WriteByte('{')
		for i := range n.keys {
			if i > 0 {
				b.WriteByte(',')
			}
			s, _ := json.Marshal(n.keys[i])
			b.Write(s)
			b.WriteByte(':')
			n.vals[i].bytes(b)
		}
		b.WriteByte('}')
	}
}

// ---------------------------------------------------------------- Go value -> Coq gval (reflection)

func coqVal(v reflect.Value) string {
	t := v.Type()
	switch kindOf(t) {
	case kBool:
		return "(VBool " + CoqBool(v.Bool()) + ")"
	case kInt:
		if t.Kind() >= reflect.Int && t.Kind() <= reflect.Int64 {
			return "(VInt " + CoqZ(v.Int()) + ")"
		}
		return "(VInt " + CoqZu(v.Uint()) + ")"
	case kStr:
		return "(VStr " + cs(v.String()) + ")"
	case kBytes:
		if v.IsNil() {
			return "(VBytes None)"
		}
		return "(VBytes (Some " + cs(string(v.Bytes())) + "))"
	case kPtr:
		if v.IsNil() {
			return "(VPtr None)"
		}
		return "(VPtr (Some " + coqVal(v.Elem()) + "))"
	case kSwapId:
		bs := make([]byte, 32)
		for i := 0; i < 32; i++ {
			bs[i] = byte(v.Index(i).Uint())
		}
		return "(VSwapId " + cs(string(bs)) + ")"
	case kIface:
		if v.IsNil() {
			return "(VIface None)"
		}
		if !v.CanInterface() {
			return "VOpaque"
		}
		// the dynamic value is given by its own encoding (trusted: encoding/json on that value)
		data, err := json.Marshal(v.Interface())
		if err != nil {
			return "(VIface (Some JNumBad))"
		}
		n, err := c14parseTree(data)
		if err != nil {
			return "(VIface (Some JNumBad))"
		}
		return "(VIface (Some " + n.coq() + "))"
	case kStruct:
		xs := make([]string, t.NumField())
		for i := 0; i < t.NumField(); i++ {
			if !t.Field(i).IsExported() {
				xs[i] = "VOpaque"
			} else {
				xs[i] = coqVal(v.Field(i))
			}
		}
		return "(VStruct " + CoqList(xs) + ")"
	}
	return "VOpaque"
}

func c14coqMachine(m *swap.SwapStateMachine) string { return coqVal(reflect.ValueOf(m).Elem()) }

// ---------------------------------------------------------------- generators

func rbytes(r *Rng, n int) []byte {
	b := make([]byte, n)
	for i := range b {
		b[i] = byte(r.U64())
	}
	return b
}
func rhex(r *Rng, n int) string { return hex.EncodeToString(rbytes(r, n)) }

func rid(r *Rng) *swap.SwapId {
	var id swap.SwapId
	copy(id[:], rbytes(r, 32))
	switch r.Intn(12) {
	case 0:
		id = swap.SwapId{}
	case 1:
		for i := range id {
			id[i] = 0xff
		}
	}
	return &id
}

var boundaryU64 = []uint64{0, 1, 999, 1000, 100000, 1<<31 - 1, 1 << 31, 1<<32 - 1, 1 << 32, 1<<53 + 1, 1<<63 - 1, 1 << 63, 1<<64 - 1, 18446744073709551, 18446744073709552}
var boundaryI64 = []int64{0, 1, -1, 1000, -1000, 1<<31 - 1, -(1 << 31), 1 << 32, 1<<53 + 1, -(1<<53 + 1), 1<<63 - 1, -(1 << 63), -(1 << 63) + 1}
var boundaryU32 = []uint64{0, 1, 2, 143, 144, 1008, 2016, 800000, 1<<31 - 1, 1 << 31, 1<<32 - 2, 1<<32 - 1}

var validStrings = []string{"", " ", "a", "regtest", "mainnet", "539268x845x1", "539268:845:1", "\"quoted\"", "back\\slash", "<script>&amp;</script>",
	"tab\tnew\nline\r", "\x00\x01\x1f", "\x7f", "caf\xc3\xa9", "\xe2\x80\xa8\xe2\x80\xa9", "\xef\xbf\xbd", "\xf0\x9f\x98\x80", "\xed\x9f\xbf", "\xee\x80\x80",
	"\xf4\x8f\xbf\xbf", "\xc2\x80", "\xdf\xbf", "\xe0\xa0\x80", "null", "{}", "swap canceled: peer said \"no\"", "0", "-1", "=="}
var invalidStrings = []string{"\xff", "a\x80b", "\xc0\xaf", "\xc1\xbf", "\xe0\x80\x80", "\xed\xa0\x80", "\xf0\x80\x80\x80", "\xf4\x90\x80\x80", "\xf5\x80\x80\x80",
	"\xc2", "\xe2\x82", "\xf0\x9f\x98", "ok\xe2\x28\xa1", "\xfe\xfe\xff\xff", "trunc\xc3"}

func rstring(r *Rng, allowInvalid bool) string {
	switch r.Intn(10) {
	case 0, 1, 2:
		return PickS(r, validStrings)
	case 3:
		if allowInvalid {
			return PickS(r, invalidStrings)
		}
		return PickS(r, validStrings)
	case 4:
		n := int(PickI(r, []int64{10, 60, 300}))
		if r.Chance(10) {
			n = 3000
		}
		return strings.Repeat(PickS(r, []string{"ab", "0123456789abcdef", "\xc3\xa9x", "<"}), n/2)
	case 5:
		return PickS(r, validStrings) + PickS(r, validStrings)
	}
	return rhex(r, r.Intn(40))
}

func rbytesField(r *Rng) []byte {
	switch r.Intn(8) {
	case 0:
		return nil
	case 1:
		return []byte{}
	case 2:
		return rbytes(r, 1+r.Intn(5))
	case 3:
		return rbytes(r, int(PickI(r, []int64{31, 33, 64, 255, 300})))
	case 4:
		return []byte{0xff, 0xfe, 0xfd, 0xfb, 0xef, 0xbe, 0x3e, 0x3f}
	}
	return rbytes(r, 32)
}

// fillRandom sets every exported, settable field below v to a random / extreme value (schema-generic).
func fillRandom(r *Rng, v reflect.Value, depth int, allowInvalid bool) {
	t := v.Type()
	switch kindOf(t) {
	case kBool:
		v.SetBool(r.Bool())
	case kInt:
		if t.Kind() >= reflect.Int && t.Kind() <= reflect.Int64 {
			x := PickI(r, boundaryI64)
			if r.Chance(30) {
				x = int64(r.U64())
			}
			bits := uint(t.Bits())
			if bits < 64 {
				x = x << (64 - bits) >> (64 - bits)
			}
			v.SetInt(x)
		} else {
			x := PickU(r, boundaryU64)
			if t.Bits() == 32 {
				x = PickU(r, boundaryU32)
			}
			if r.Chance(30) {
				x = r.U64()
			}
			bits := uint(t.Bits())
			if bits < 64 {
				x &= (1 << bits) - 1
			}
			v.SetUint(x)
		}
	case kStr:
		v.SetString(rstring(r, allowInvalid))
	case kBytes:
		v.SetBytes(rbytesField(r))
	case kSwapId:
		reflect.Copy(v, reflect.ValueOf(rbytes(r, 32)))
	case kPtr:
		if depth > 6 || r.Chance(25) {
			v.Set(reflect.Zero(t))
			return
		}
		p := reflect.New(t.Elem())
		fillRandom(r, p.Elem(), depth+1, allowInvalid)
		v.Set(p)
	case kStruct:
		for i := 0; i < t.NumField(); i++ {
			if t.Field(i).IsExported() && v.Field(i).CanSet() {
				fillRandom(r, v.Field(i), depth+1, allowInvalid)
			}
		}
	}
}

// mutateLeaf overwrites about k random leaves with extreme values (keeps the rest realistic)
func mutateLeaves(r *Rng, v reflect.Value, pct int, allowInvalid bool) {
	t := v.Type()
	switch kindOf(t) {
	case kPtr:
		if !v.IsNil() {
			if r.Chance(pct / 4) {
				v.Set(reflect.Zero(t))
				return
			}
			mutateLeaves(r, v.Elem(), pct, allowInvalid)
		}
	case kStruct:
		for i := 0; i < t.NumField(); i++ {
			if t.Field(i).IsExported() && v.Field(i).CanSet() {
				mutateLeaves(r, v.Field(i), pct, allowInvalid)
			}
		}
	case kBool, kInt, kStr, kBytes, kSwapId:
		if r.Chance(pct) {
			fillRandom(r, v, 0, allowInvalid)
		}
	}
}

func pubkey(r *Rng) string { return "02" + rhex(r, 32) }

// realisticMachine builds the record a node in (type, role, state) would plausibly hold.
func realisticMachine(r *Rng, typ swap.SwapType, role swap.SwapRole, state string, stateIdx, nStates int) *swap.SwapStateMachine {
	id := rid(r)
	me, peer := pubkey(r), pubkey(r)
	d := &swap.SwapData{PeerNodeId: peer, CreatedAt: r.Range(1600000000, 1900000000), Role: role,
		FSMState: swap.StateType(state), PrivkeyBytes: rbytes(r, 32)}
	if role == swap.SWAPROLE_SENDER {
		d.InitiatorNodeId = me
	} else {
		d.InitiatorNodeId = peer
	}
	liquid := r.Bool()
	asset, network := "", PickS(r, []string{"mainnet", "testnet", "signet", "regtest", "testnet4"})
	if liquid {
		asset, network = rhex(r, 32), ""
	}
	scid := fmt.Sprintf("%d%s%d%s%d", r.Range(1, 900000), PickS(r, []string{"x", ":"}), r.Range(0, 4000), "x", r.Range(0, 5))
	amount := PickU(r, []uint64{1000, 100000, 10000000, 1 << 32, 2100000000000000, 1<<63 - 1})
	pv := uint8(PickI(r, []int64{5, 6, 7, 0, 255}))
	prem := PickI(r, []int64{0, 1, 1000, -1, -1000, -100000, 1<<63 - 1, -(1 << 63)})
	progress := 0
	if nStates > 1 {
		progress = stateIdx * 100 / (nStates - 1)
	}
	later := func(p int) bool { return r.Chance(20 + progress*p/100) }
	if typ == swap.SWAPTYPE_OUT {
		d.SwapOutRequest = &swap.SwapOutRequestMessage{ProtocolVersion: pv, SwapId: id, Asset: asset, Network: network, Scid: scid,
			Amount: amount, Pubkey: pubkey(r), PremiumLimit: PickI(r, boundaryI64)}
		if later(80) {
			d.SwapOutAgreement = &swap.SwapOutAgreementMessage{ProtocolVersion: pv, SwapId: id, Pubkey: pubkey(r),
				Payreq: "lnbcrt" + rhex(r, 30), Premium: prem}
			d.FeePreimage = rhex(r, 32)
			d.OpeningTxFee = PickU(r, boundaryU64)
		}
	} else {
		d.SwapInRequest = &swap.SwapInRequestMessage{ProtocolVersion: pv, SwapId: id, Asset: asset, Network: network, Scid: scid,
			Amount: amount, Pubkey: pubkey(r), PremiumLimit: PickI(r, boundaryI64)}
		if later(80) {
			d.SwapInAgreement = &swap.SwapInAgreementMessage{ProtocolVersion: pv, SwapId: id, Pubkey: pubkey(r), Premium: prem}
		}
	}
	if later(60) {
		d.OpeningTxBroadcasted = &swap.OpeningTxBroadcastedMessage{SwapId: id, Payreq: "lnbcrt" + rhex(r, 40), TxId: rhex(r, 32),
			ScriptOut: uint32(PickU(r, boundaryU32))}
		d.OpeningTxHex = rhex(r, int(PickI(r, []int64{40, 100, 400})))
		d.ClaimPaymentHash = rhex(r, 32)
		if liquid {
			d.OpeningTxBroadcasted.BlindingKey = rhex(r, 32)
			d.BlindingKeyHex = d.OpeningTxBroadcasted.BlindingKey
		}
	}
	if later(40) {
		d.StartingBlockHeight = uint32(PickU(r, boundaryU32))
		d.StartingBlockHeightSet = r.Bool()
	}
	if later(30) {
		d.ClaimPreimage = rhex(r, 32)
	}
	if later(20) {
		d.ClaimTxId = rhex(r, 32)
	}
	if r.Chance(15) {
		d.CoopClose = &swap.CoopCloseMessage{SwapId: id, Message: rstring(r, false), Privkey: rhex(r, 32)}
	}
	if r.Chance(15) {
		d.Cancel = &swap.CancelMessage{SwapId: id, Message: rstring(r, false)}
	}
	if r.Chance(25) {
		e := errors.New(PickS(r, []string{"swaps are disabled", "too close to csv", "could not pay invoice: timeout, last err: <nil>", "rpc error: code = Unknown desc = \"x\""}))
		d.LastErr = e
		if r.Chance(60) {
			d.LastErrString = e.Error()
		}
		if r.Chance(60) {
			d.CancelMessage = e.Error()
		}
	}
	if r.Chance(50) {
		var msg swap.PeerMessage = d.GetRequest()
		if d.OpeningTxBroadcasted != nil && r.Bool() {
			msg = d.OpeningTxBroadcasted
		}
		if msg != nil {
			bs, mt, _ := swap.MarshalPeerswapMessage(msg)
			d.NextMessage, d.NextMessageType = bs, mt
		}
	}
	m := &swap.SwapStateMachine{SwapId: id, Data: d, Type: typ, Role: role, Current: swap.StateType(state)}
	if r.Chance(70) {
		m.Previous = swap.StateType(PickS(r, []string{"", "State_SendCancel", state}))
	}
	if r.Chance(50) {
		m.States = swap.States{} // in-memory only
	}
	return m
}

// ---------------------------------------------------------------- real store access

type c14Store struct {
	db *bbolt.DB
	st interface {
		UpdateData(*swap.SwapStateMachine) error
		GetData(string) (*swap.SwapStateMachine, error)
		ListAll() ([]*swap.SwapStateMachine, error)
	}
}

func openStore(path string) (*c14Store, error) {
	os.Remove(path)
	db, err := bbolt.Open(path, 0o600, &bbolt.Options{NoSync: true, NoFreelistSync: true})
	if err != nil {
		return nil, err
	}
	st, err := swap.NewBboltStore(db)
	if err != nil {
		return nil, err
	}
	return &c14Store{db: db, st: st}, nil
}

func (s *c14Store) raw(key []byte) []byte {
	var out []byte
	s.db.View(func(tx *bbolt.Tx) error {
		b := tx.Bucket(swap.VerifSwapBucketName())
		if b == nil {
			return nil
		}
		if v := b.Get(key); v != nil {
			out = append([]byte{}, v...)
		}
		return nil
	})
	return out
}

func (s *c14Store) putRaw(key, val []byte) error {
	return s.db.Update(func(tx *bbolt.Tx) error {
		return tx.Bucket(swap.VerifSwapBucketName()).Put(key, val)
	})
}

func getResult(m *swap.SwapStateMachine, err error) string {
	if err == swap.ErrDataNotAvailable {
		return "GNotFound"
	}
	if err != nil || m == nil {
		return "GErr"
	}
	return "(GOk " + c14coqMachine(m) + ")"
}

func allValidUTF8(v reflect.Value) bool {
	ok := true
	var walk func(v reflect.Value)
	walk = func(v reflect.Value) {
		switch kindOf(v.Type()) {
		case kStr:
			if !utf8.ValidString(v.String()) {
				ok = false
			}
		case kPtr:
			if !v.IsNil() {
				walk(v.Elem())
			}
		case kStruct:
			for i := 0; i < v.NumField(); i++ {
				if v.Type().Field(i).IsExported() {
					walk(v.Field(i))
				}
			}
		}
	}
	walk(v)
	return ok
}

// ---------------------------------------------------------------- malformed records

// collectLeaves gathers the string leaves stored under one of the given keys
func collectLeaves(n *c14jnode, keys map[string]bool, out *[]*c14jnode) {
	switch n.kind {
	case "obj":
		for i, k := range n.keys {
			if keys[k] && n.vals[i].kind == "str" {
				*out = append(*out, n.vals[i])
			}
			collectLeaves(n.vals[i], keys, out)
		}
	case "arr":
		for _, c := range n.arr {
			collectLeaves(c, keys, out)
		}
	}
}

// targeted mutations of the two custom leaf codecs (swap id hex, []byte base64)
func mutateCodecLeaf(r *Rng, n *c14jnode) string {
	var ids, b64s []*c14jnode
	collectLeaves(n, map[string]bool{"swap_id": true}, &ids)
	collectLeaves(n, map[string]bool{"private_key": true, "next_message": true}, &b64s)
	if len(ids) > 0 && (r.Bool() || len(b64s) == 0) {
		l := ids[r.Intn(len(ids))]
		if len(l.s) < 64 { // already mutated by an earlier pass
			l.s = l.s + "0f"
			return "id-codec"
		}
		switch r.Intn(7) {
		case 0:
			l.s = l.s[:62]
		case 1:
			l.s = l.s + "00"
		case 2:
			l.s = strings.ToUpper(l.s)
		case 3:
			l.s = l.s[:63]
		case 4:
			l.s = "zz" + l.s[2:]
		case 5:
			l.s = ""
		default:
			l.s = l.s[:32]
		}
		return "id-codec"
	}
	if len(b64s) > 0 {
		l := b64s[r.Intn(len(b64s))]
		switch r.Intn(7) {
		case 0:
			l.s = strings.TrimRight(l.s, "=")
		case 1:
			l.s = l.s + "="
		case 2:
			if len(l.s) > 4 {
				l.s = l.s[:4] + "\n" + l.s[4:]
			}
		case 3:
			l.s = "*" + l.s
		case 4:
			l.s = strings.NewReplacer("+", "-", "/", "_").Replace(l.s) + "-_8="
		case 5:
			l.s = "QQ=="
		default:
			l.s = "QUI="
		}
		return "b64-codec"
	}
	return "none"
}

func mutateTree(r *Rng, n *c14jnode, depth int) string {
	// returns the name of the mutation applied (exactly one per call chain)
	if depth == 0 && r.Chance(25) {
		if m := mutateCodecLeaf(r, n); m != "none" {
			return m
		}
	}
	if n.kind == "obj" && len(n.keys) > 0 {
		i := r.Intn(len(n.keys))
		c := n.vals[i]
		if (c.kind == "obj" || c.kind == "arr") && depth < 3 && r.Chance(60) {
			return mutateTree(r, c, depth+1)
		}
		switch r.Intn(13) {
		case 0:
			n.keys = append(n.keys[:i:i], n.keys[i+1:]...)
			n.vals = append(n.vals[:i:i], n.vals[i+1:]...)
			return "drop-key"
		case 1:
			n.vals[i] = &c14jnode{kind: "null"}
			return "null"
		case 2:
			n.keys[i] = strings.ToUpper(n.keys[i])
			return "key-upper"
		case 3:
			n.keys[i] = strings.ToUpper(n.keys[i][:1]) + n.keys[i][1:]
			return "key-title"
		case 4:
			n.keys = append(n.keys, PickS(r, []string{"unknown_key", "States", "LastErr", "retries", "-", ""}))
			n.vals = append(n.vals, &c14jnode{kind: PickS(r, []string{"null", "str", "obj", "arr"}), s: "x"})
			return "extra-key"
		case 5:
			n.vals[i] = &c14jnode{kind: "num", num: PickS(r, []string{"0", "1", "-1", "255", "256", "4294967295", "4294967296", "9223372036854775807",
				"9223372036854775808", "-9223372036854775808", "-9223372036854775809", "18446744073709551615", "18446744073709551616", "2147483648"})}
			return "num-boundary"
		case 6:
			n.vals[i] = &c14jnode{kind: "num", num: PickS(r, []string{"1.5", "1e3", "1.0", "0.0", "1E2", "-2.5e-1"})}
			return "num-float"
		case 7:
			n.vals[i] = &c14jnode{kind: "str", s: PickS(r, []string{"", "abc", "00", "zz", "AAECAw==", "AAECAw=", "AAEC\nAw==", "AA==", "AAE=", "AAE", "A===", "AA=A", "!!!!",
				strings.Repeat("ab", 32), strings.Repeat("AB", 32), strings.Repeat("ab", 31), strings.Repeat("ab", 31) + "a", strings.Repeat("zz", 32), "-_-_"})}
			return "str-odd"
		case 8:
			n.vals[i] = &c14jnode{kind: "bool", b: r.Bool()}
			return "bool"
		case 9:
			n.vals[i] = &c14jnode{kind: "arr", arr: []*c14jnode{{kind: "num", num: PickS(r, []string{"1", "255", "256", "-1"})}, {kind: PickS(r, []string{"num", "null", "str"}), num: "7", s: "x"}}}
			return "array"
		case 10:
			n.vals[i] = &c14jnode{kind: "obj"}
			return "empty-obj"
		case 11:
			n.vals[i] = &c14jnode{kind: "arr"}
			return "empty-arr"
		default:
			n.vals[i] = &c14jnode{kind: "obj", keys: []string{"swap_id", "message"}, vals: []*c14jnode{{kind: "null"}, {kind: "str", s: "m"}}}
			return "obj"
		}
	}
	if n.kind == "arr" {
		n.arr = append(n.arr, &c14jnode{kind: "num", num: "300"})
		return "array-elem"
	}
	return "none"
}

// ---------------------------------------------------------------- the subcommand

func runC14(args []string) error {
	fs := flag.NewFlagSet("c14", flag.ExitOnError)
	out := fs.String("out", "/verif/work/C14", "output dir")
	seed := fs.Uint64("seed", 1, "seed")
	n := fs.Int("n", 300, "scale: records per family")
	fs.Parse(args)
	r := NewRng(*seed)
	if err := os.MkdirAll(*out, 0o755); err != nil {
		return err
	}
	st, err := openStore(filepath.Join(*out, "swaps.db"))
	if err != nil {
		return err
	}
	defer st.db.Close()

	cf := NewCaseFile("From PS Require Import Model.Json Model.GoJson Model.SwapStore Model.C14Corr.",
		"c14_case", "c14_check", "c14_monitor")

	// one record through the real store: UpdateData, raw bytes, GetData
	record := func(m *swap.SwapStateMachine, kind string, extra map[string]interface{}) error {
		beginCase()
		mterm := c14coqMachine(m) // before the store sees it
		valid := allValidUTF8(reflect.ValueOf(m).Elem())
		uerr := st.st.UpdateData(m)
		var rawTerm string = "None"
		var idStr string
		if m.SwapId != nil {
			idStr = m.SwapId.String()
			if raw := st.raw(m.SwapId[:]); raw != nil {
				t, err := c14parseTree(raw)
				if err != nil {
					return fmt.Errorf("stored bytes are not JSON: %v", err)
				}
				rawTerm = "(Some " + t.coq() + ")"
			}
		}
		g, gerr := st.st.GetData(idStr)
		if m.SwapId != nil {
			// every record case starts from an empty bucket
			key := append([]byte{}, m.SwapId[:]...)
			st.db.Update(func(tx *bbolt.Tx) error { return tx.Bucket(swap.VerifSwapBucketName()).Delete(key) })
		}
		term := endCase(fmt.Sprintf("CRec %s %s %s %s", mterm, CoqBool(uerr != nil), rawTerm, getResult(g, gerr)))
		js := map[string]interface{}{"family": "record", "kind": kind, "update_err": uerr != nil, "get_err": gerr != nil, "valid_utf8": valid}
		if jb, err := json.Marshal(m); err == nil {
			js["machine_json"] = string(jb)
		}
		if g != nil {
			if jb, err := json.Marshal(g); err == nil {
				js["reloaded_json"] = string(jb)
			}
		}
		for k, v := range extra {
			js[k] = v
		}
		if !valid {
			kind += "+invalid-utf8"
		}
		cf.Add(term, "rec|"+term, true, kind, js)
		return nil
	}

	tables := swap.VerifStateTables()
	// family 1: every (type, role, state), realistic content; then the same with extreme leaves
	reps := *n / 150
	if reps < 1 {
		reps = 1
	}
	for rep := 0; rep < reps; rep++ {
		for _, t := range tables {
			for si, s := range t.States {
				m := realisticMachine(r, t.Type, t.Role, s, si, len(t.States))
				if err := record(m, fmt.Sprintf("state:%s/%s", t.Type.String(), t.Role.String()), map[string]interface{}{"state": s}); err != nil {
					return err
				}
				m2 := realisticMachine(r, t.Type, t.Role, s, si, len(t.States))
				mutateLeaves(r, reflect.ValueOf(m2).Elem(), 12, rep%3 == 2)
				if m2.SwapId == nil {
					m2.SwapId = rid(r)
				}
				if err := record(m2, "extreme-leaves", map[string]interface{}{"state": s}); err != nil {
					return err
				}
			}
		}
	}
	// family 2: schema-generic random values (every field, every kind, extremes)
	for i := 0; i < *n*2/3; i++ {
		m := &swap.SwapStateMachine{}
		fillRandom(r, reflect.ValueOf(m).Elem(), 0, i%5 == 4)
		kind := "random"
		switch {
		case i%23 == 7:
			m.SwapId = nil
			kind = "nil-id"
		case i%23 == 11:
			m.Data = nil
			kind = "nil-data"
		case i%23 == 13 && m.Data != nil:
			m.Data.LastMessage = &swap.CancelMessage{SwapId: rid(r), Message: "x"}
			kind = "last-message-set"
		case i%23 == 17 && m.Data != nil:
			m.Data.LastMessage = swap.CoopCloseMessage{Message: "y"}
			kind = "last-message-set"
		case i%23 == 19 && m.Data != nil:
			m.Data.LastErr = errors.New("in-memory only")
			m.States = swap.States{"x": swap.State{}}
			kind = "erased-fields-set"
		}
		if m.SwapId == nil && kind != "nil-id" {
			m.SwapId = rid(r)
		}
		if err := record(m, kind, nil); err != nil {
			return err
		}
	}
	// family 3: raw records (a real encoding with one mutation) put into the bucket, read by GetData
	for i := 0; i < *n*2/3; i++ {
		t := tables[r.Intn(len(tables))]
		si := r.Intn(len(t.States))
		m := realisticMachine(r, t.Type, t.Role, t.States[si], si, len(t.States))
		if r.Chance(30) {
			fillRandom(r, reflect.ValueOf(m).Elem(), 0, false)
			if m.SwapId == nil {
				m.SwapId = rid(r)
			}
		}
		data, _ := json.Marshal(m)
		tree, err := c14parseTree(data)
		if err != nil {
			return err
		}
		mut := mutateTree(r, tree, 0)
		if r.Chance(25) {
			mut += "+" + mutateTree(r, tree, 0)
		}
		var buf bytes.Buffer
		tree.bytes(&buf)
		tree2, err := c14parseTree(buf.Bytes())
		if err != nil {
			return fmt.Errorf("harness wrote invalid JSON: %v", err)
		}
		key := rbytes(r, 32)
		if err := st.putRaw(key, buf.Bytes()); err != nil {
			return err
		}
		g, gerr := st.st.GetData(hex.EncodeToString(key))
		beginCase()
		term := endCase(fmt.Sprintf("CRaw %s %s", tree2.coq(), getResult(g, gerr)))
		ok := "ok"
		if gerr != nil {
			ok = "err"
		}
		cf.Add(term, "raw|"+buf.String(), true, "raw:"+mut+":"+ok, map[string]interface{}{"family": "raw", "mutation": mut, "record": buf.String(), "get_err": gerr != nil})
		// remove it again so that later ListAll calls on this db are not poisoned
		st.db.Update(func(tx *bbolt.Tx) error { return tx.Bucket(swap.VerifSwapBucketName()).Delete(key) })
	}
	// family 4: operation sequences, each on its own store file
	nseq := *n / 10
	for i := 0; i < nseq; i++ {
		s2, err := openStore(filepath.Join(*out, "seq.db"))
		if err != nil {
			return err
		}
		ids := []*swap.SwapId{rid(r), rid(r), rid(r), rid(r)}
		nops := 3 + r.Intn(8)
		beginCase()
		ops := []string{}
		opsJS := []interface{}{}
		poisoned := false
		type lastW struct {
			ti, si int
			m      *swap.SwapStateMachine
		}
		last := map[string]lastW{}
		for k := 0; k < nops; k++ {
			switch c := r.Intn(10); {
			case c < 5:
				ti := r.Intn(len(tables))
				t := tables[ti]
				si := r.Intn(len(t.States))
				id := *ids[r.Intn(len(ids))]
				// every other write to an id that was written before keeps the state of that write and changes only
				// the data (what the state machine does when it stores an applied message before moving on, and when
				// recovery re-runs an action in the unchanged state)
				lw, rewrite := last[id.String()]
				rewrite = rewrite && r.Chance(50)
				if rewrite {
					ti, si, t = lw.ti, lw.si, tables[lw.ti]
				}
				m := realisticMachine(r, t.Type, t.Role, t.States[si], si, len(t.States))
				if rewrite {
					m.Current, m.Previous = lw.m.Current, lw.m.Previous
				}
				m.SwapId = &id
				last[id.String()] = lastW{ti, si, m}
				if r.Chance(6) {
					m.SwapId = nil
				}
				if i%4 == 3 && r.Chance(40) {
					m.Data.LastMessage = &swap.CancelMessage{Message: "poison"}
					poisoned = true
				}
				mt := c14coqMachine(m)
				jb, _ := json.Marshal(m)
				err := s2.st.UpdateData(m)
				ops = append(ops, fmt.Sprintf("(OUpdate %s %s)", mt, CoqBool(err != nil)))
				opsJS = append(opsJS, map[string]interface{}{"op": "UpdateData", "machine_json": string(jb), "err": err != nil})
			case c < 8:
				idstr := ids[r.Intn(len(ids))].String()
				switch r.Intn(8) {
				case 0:
					idstr = strings.ToUpper(idstr)
				case 1:
					if len(idstr) > 0 {
						idstr = idstr[:r.Intn(len(idstr))]
					}
				case 2:
					// (the rendering of an id is 64 hex digits in the code as it is; a changed rendering must not crash the harness)
					mid := idstr + "zz"
					if len(idstr) >= 12 {
						mid = idstr[:10] + "zz" + idstr[12:]
					}
					idstr = PickS(r, []string{"", "zz", "0", idstr + "00", mid})
				case 3:
					idstr = rid(r).String()
				}
				g, gerr := s2.st.GetData(idstr)
				ops = append(ops, fmt.Sprintf("(OGet %s %s)", cs(idstr), getResult(g, gerr)))
				opsJS = append(opsJS, map[string]interface{}{"op": "GetData", "id": idstr, "err": gerr != nil})
			default:
				l, lerr := s2.st.ListAll()
				opsJS = append(opsJS, map[string]interface{}{"op": "ListAll", "err": lerr != nil, "n": len(l)})
				if lerr != nil {
					ops = append(ops, "(OList None)")
				} else {
					xs := make([]string, len(l))
					for j, m := range l {
						xs[j] = c14coqMachine(m)
					}
					ops = append(ops, "(OList (Some "+CoqList(xs)+"))")
				}
			}
		}
		s2.db.Close()
		kind := "seq"
		if poisoned {
			kind = "seq:poisoned"
		}
		term := endCase("CSeq " + CoqList(ops))
		cf.Add(term, "seq|"+term, true, kind, map[string]interface{}{"family": "seq", "ops": opsJS, "poisoned": poisoned, "index": i})
	}
	os.Remove(filepath.Join(*out, "seq.db"))
	cf.Imports += "\n" + globalDefs()
	return cf.Write(*out, 30, map[string]interface{}{"seed": *seed})
}
