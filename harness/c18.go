package main

// C18 deadlock harness: a real SwapService over a real watcher (txwatcher.BlockchainRpcTxWatcher with or without its own
// goroutines, or the lwk electrum watcher) reading a simulated chain. A maker (swap-in sender / swap-out receiver) is
// driven to the state in which it waits for the claim payment or the CSV; the chain is put into one of the three CSV
// states (not yet / just / long matured); then a cancel, a failing cooperative close or an invalid message is delivered
// and a block notification is made, in each order and concurrently. Every injected call runs in its own goroutine under
// a pprof label; a call that has not returned when the watchdog expires is a blocked goroutine, and the goroutine
// profile gives the lock wait chain that becomes the signature.

import (
	"bytes"
	"context"
	"flag"
	"fmt"
	"os"
	"path/filepath"
	"regexp"
	"runtime/pprof"
	"sort"
	"strings"
	"sync"
	"sync/atomic"
	"time"

	pslog "github.com/elementsproject/peerswap/log"
	"github.com/elementsproject/peerswap/swap"
)

type c18Scenario struct {
	Idx      int    `json:"idx"`
	Role     string `json:"role"`     // in_sender | out_receiver
	Watcher  string `json:"watcher"`  // rpc-loops | rpc-direct | electrum
	Chain    string `json:"chain"`    // btc | lbtc
	Maturity string `json:"maturity"` // not_yet | just | long
	Trigger  string `json:"trigger"`  // cancel | coop_fail | invalid
	Order    string `json:"order"`    // trigger_first | block_first | concurrent
	JitterUs int    `json:"jitter_us"`
}

type c18Observed struct {
	Start     string   `json:"start_state"`
	Completed bool     `json:"completed"`
	Pending   []string `json:"pending_calls"`
	Final     string   `json:"final_state"`
	CsvSpends int      `json:"csv_spends"`
	Active    bool     `json:"still_active"`
	Blocked   string   `json:"blocked_signature"`
	SetupErr  string   `json:"setup_error,omitempty"`
	Millis    int64    `json:"millis"`
	linger    string    // lock waits of background goroutines (watcher loops, registrations) still there after the scenario
	lingerAt  time.Time
}

type c18Call struct {
	name string
	done int32
}

func c18Scenarios(r *Rng, rounds int) []c18Scenario {
	out := []c18Scenario{}
	for round := 0; round < rounds; round++ {
		for _, w := range []string{"rpc-direct", "rpc-loops", "electrum"} {
			for _, role := range []string{"in_sender", "out_receiver"} {
				for _, mat := range []string{"not_yet", "just", "long"} {
					for _, trg := range []string{"cancel", "coop_fail", "invalid"} {
						for _, ord := range []string{"trigger_first", "block_first", "concurrent"} {
							chain := "lbtc"
							if w != "electrum" && (len(out)%2 == 0) {
								chain = "btc"
							}
							out = append(out, c18Scenario{Idx: len(out), Role: role, Watcher: w, Chain: chain, Maturity: mat, Trigger: trg, Order: ord,
								JitterUs: r.Intn(3000)})
						}
					}
				}
			}
		}
	}
	return out
}

var c18Interesting = regexp.MustCompile(`\.(SendEvent|Recover|HandleCsvTx|Update|AddWaitForCsvTx|AddWaitForConfirmationTx|Register|Deregister|OnCsvPassed|OnTxConfirmed|TxClaimed|GetActiveSwap|RemoveActiveSwap|lockSwap|observationLoop)$`)

// c18BlockedSignature: lock wait chains of the goroutines labelled scen=<idx> in a goroutine profile (debug=1)
func c18BlockedSignature(profile string, idx int) string {
	want := fmt.Sprintf(`"scen":"%d"`, idx)
	sigs := map[string]bool{}
	for _, grp := range strings.Split(profile, "\n\n") {
		if !strings.Contains(grp, want) {
			continue
		}
		if !strings.Contains(grp, "sync.(*Mutex).Lock") && !strings.Contains(grp, "sync.(*RWMutex).Lock") && !strings.Contains(grp, "sync.(*RWMutex).RLock") {
			continue
		}
		chain := []string{}
		for _, ln := range strings.Split(grp, "\n") {
			f := strings.Fields(ln)
			if len(f) < 3 || f[0] != "#" {
				continue
			}
			fn := f[2]
			if i := strings.Index(fn, "+0x"); i >= 0 {
				fn = fn[:i]
			}
			if !strings.Contains(fn, "elementsproject/peerswap/") {
				continue
			}
			fn = strings.TrimPrefix(fn, "github.com/elementsproject/peerswap/")
			fn = strings.NewReplacer("(*", "", ")", "").Replace(fn)
			if c18Interesting.MatchString(fn) {
				if len(chain) == 0 || chain[len(chain)-1] != fn {
					chain = append(chain, fn)
				}
			}
		}
		if len(chain) > 0 {
			sigs["wait:"+strings.Join(chain, "<")] = true
		}
	}
	keys := []string{}
	for k := range sigs {
		keys = append(keys, k)
	}
	sort.Strings(keys)
	return strings.Join(keys, " || ")
}

func c18RunScenario(sc c18Scenario, dir string, watchdog time.Duration, dump func() string) c18Observed {
	t0 := time.Now()
	obs := c18Observed{}
	wk := "rpc"
	if sc.Watcher == "electrum" {
		wk = "electrum"
	}
	n, err := c18NewNode(filepath.Join(dir, fmt.Sprintf("n%d", sc.Idx)), wk, sc.Chain, sc.Watcher == "rpc-loops", nil)
	if err != nil {
		obs.SetupErr = err.Error()
		return obs
	}
	sm, err := n.makerToAwaitPayment(sc.Role, 100000)
	if err != nil {
		obs.SetupErr = err.Error()
		return obs
	}
	id := sm.SwapId.String()
	if cur, err := n.svc.GetSwap(id); err == nil {
		obs.Start = string(cur.Current)
	}
	if sc.Trigger == "coop_fail" {
		n.wallet.mu.Lock()
		n.wallet.coopFail = true
		n.wallet.mu.Unlock()
	}
	// chain state at the moment the maker is made to enter its CSV wait
	csv := int64(swap.VerifTimelockPolicy(sc.Chain, swap.PEERSWAP_PROTOCOL_VERSION).CSV)
	txHeight := int64(1001)
	var delta int64
	switch sc.Maturity {
	case "not_yet":
		delta = -1
	case "just":
		delta = 0
	case "long":
		delta = 100
	}
	mature := txHeight + csv - 1

	var mu sync.Mutex
	calls := []*c18Call{}
	run := func(name string, f func()) {
		c := &c18Call{name: name}
		mu.Lock()
		calls = append(calls, c)
		mu.Unlock()
		go func() {
			f()
			atomic.StoreInt32(&c.done, 1)
		}()
	}
	notify := func(h int64) {
		n.chain.SetHeight(h)
		if sc.Watcher == "rpc-direct" {
			_ = n.rpcW.HandleCsvTx(uint64(h))
		}
	}
	trigger := func() {
		switch sc.Trigger {
		case "cancel":
			_ = n.deliver(&swap.CancelMessage{SwapId: sm.SwapId, Message: "peer cancels"})
		case "coop_fail":
			_ = n.deliver(&swap.CoopCloseMessage{SwapId: sm.SwapId, Message: "coop", Privkey: strings.Repeat("44", 32)})
		case "invalid":
			_ = n.deliver(&swap.CoopCloseMessage{SwapId: sm.SwapId, Message: "coop", Privkey: "zz"})
		}
	}
	jitter := time.Duration(sc.JitterUs) * time.Microsecond
	// without its own goroutines the rpc watcher learns about a block only through notify
	if sc.Watcher == "rpc-direct" {
		n.chain.mu.Lock()
		n.chain.height = mature + delta
		n.chain.mu.Unlock()
	} else {
		// the watcher's own loop may fire the CSV callback as soon as the chain is mature; for "trigger_first" the
		// chain is therefore made mature only together with the trigger (the trigger still finds a mature chain)
		if sc.Order != "trigger_first" || delta < 0 {
			n.chain.SetHeight(mature + delta)
		}
	}
	switch sc.Order {
	case "trigger_first":
		if sc.Watcher != "rpc-direct" && delta >= 0 {
			n.chain.mu.Lock()
			n.chain.height = mature + delta // visible to the registration made by the trigger; announced below
			n.chain.mu.Unlock()
		}
		run("trigger", trigger)
		time.Sleep(jitter)
		run("block", func() {
			// wait for the trigger to be through (or stuck) before announcing
			deadline := time.Now().Add(watchdog / 2)
			for time.Now().Before(deadline) {
				mu.Lock()
				d := atomic.LoadInt32(&calls[0].done)
				mu.Unlock()
				if d == 1 {
					break
				}
				time.Sleep(5 * time.Millisecond)
			}
			h := mature + delta
			if delta < 0 {
				h = mature + 1
			}
			notify(h + 1)
		})
	case "block_first":
		h := mature + delta
		if delta < 0 {
			h = mature + 1
		}
		run("block", func() { notify(h + 1) })
		time.Sleep(jitter + 30*time.Millisecond)
		run("trigger", trigger)
	case "concurrent":
		h := mature + delta
		if delta < 0 {
			h = mature + 1
		}
		run("block", func() { time.Sleep(jitter); notify(h + 1) })
		run("trigger", func() { time.Sleep(time.Duration(3000-sc.JitterUs) * time.Microsecond); trigger() })
	}
	// the chain keeps growing: later blocks serve a registration that was made after the block notification above
	// (the electrum watcher looks at a registration only when a header arrives)
	{
		h := mature + delta + 1
		if delta < 0 {
			h = mature + 2
		}
		run("block2", func() { time.Sleep(200 * time.Millisecond); notify(h + 1) })
		run("block3", func() { time.Sleep(600 * time.Millisecond); notify(h + 2) })
	}
	// wait for: all calls returned and the swap finished
	deadline := time.Now().Add(watchdog)
	for {
		all := true
		mu.Lock()
		for _, c := range calls {
			if atomic.LoadInt32(&c.done) == 0 {
				all = false
			}
		}
		mu.Unlock()
		finished := false
		if all {
			if cur, err := n.svc.GetSwap(id); err == nil && cur.IsFinished() {
				finished = true
			}
		}
		if all && finished {
			break
		}
		if time.Now().After(deadline) {
			break
		}
		time.Sleep(10 * time.Millisecond)
	}
	obs.Completed = true
	mu.Lock()
	for _, c := range calls {
		if atomic.LoadInt32(&c.done) == 0 {
			obs.Completed = false
			obs.Pending = append(obs.Pending, c.name)
		}
	}
	mu.Unlock()
	if cur, err := n.svc.GetSwap(id); err == nil {
		obs.Final = string(cur.Current)
	}
	obs.CsvSpends = n.wallet.CsvSpends()
	obs.Active = n.svc.VerifActiveSwap(id) != nil
	if !obs.Completed {
		obs.Blocked = c18BlockedSignature(dump(), sc.Idx)
		if obs.Blocked == "" {
			obs.Blocked = "blocked:" + strings.Join(obs.Pending, ",")
		}
	} else {
		// goroutines the code itself started (watcher loops, asynchronous registrations) must not be left waiting for a
		// lock either: a wait chain seen now and again 1.5 s later is kept as a candidate and confirmed at the end of the run
		if a := c18BlockedSignature(dump(), sc.Idx); a != "" {
			time.Sleep(1500 * time.Millisecond)
			b := c18BlockedSignature(dump(), sc.Idx)
			common := []string{}
			for _, x := range strings.Split(a, " || ") {
				for _, y := range strings.Split(b, " || ") {
					if x == y {
						common = append(common, x)
					}
				}
			}
			if len(common) > 0 {
				obs.linger, obs.lingerAt = strings.Join(common, " || "), time.Now()
			}
		}
		if obs.linger == "" {
			n.Close()
		}
	}
	obs.Millis = time.Since(t0).Milliseconds()
	return obs
}

func c18TableName(role string) string {
	if role == "in_sender" {
		return "table_swap_in_sender"
	}
	return "table_swap_out_receiver"
}

func runC18(args []string) error {
	fs := flag.NewFlagSet("c18", flag.ExitOnError)
	out := fs.String("out", "", "output dir")
	seed := fs.Uint64("seed", 1, "seed")
	rounds := fs.Int("rounds", 1, "how many times the 162 scenarios are run (fresh jitter each time)")
	wd := fs.Duration("watchdog", 5*time.Second, "a call that has not returned after this long is a blocked goroutine")
	par := fs.Int("par", 54, "scenarios run concurrently")
	only := fs.Int("only", -1, "run only this scenario index (replay)")
	fs.Parse(args)
	pslog.SetLogger(quietLogger{})
	r := NewRng(*seed)
	scs := c18Scenarios(r, *rounds)
	if *only >= 0 && *only < len(scs) {
		scs = []c18Scenario{scs[*only]}
	}
	var dumpMu sync.Mutex
	var lastDump string
	var lastDumpAt time.Time
	dump := func() string {
		dumpMu.Lock()
		defer dumpMu.Unlock()
		if time.Since(lastDumpAt) < 500*time.Millisecond && lastDump != "" {
			return lastDump
		}
		var b bytes.Buffer
		pprof.Lookup("goroutine").WriteTo(&b, 1)
		lastDump, lastDumpAt = b.String(), time.Now()
		return lastDump
	}
	os.RemoveAll(filepath.Join(*out, "nodes"))
	res := make([]c18Observed, len(scs))
	sem := make(chan struct{}, *par)
	var wg sync.WaitGroup
	for i := range scs {
		wg.Add(1)
		sem <- struct{}{}
		go func(i int) {
			defer wg.Done()
			defer func() { <-sem }()
			pprof.Do(context.Background(), pprof.Labels("scen", fmt.Sprint(scs[i].Idx)), func(context.Context) {
				res[i] = c18RunScenario(scs[i], filepath.Join(*out, "nodes"), *wd, dump)
			})
		}(i)
	}
	wg.Wait()
	// confirm lingering lock waits: still in the profile one watchdog period after they were first seen
	var latest time.Time
	for i := range res {
		if res[i].linger != "" && res[i].lingerAt.After(latest) {
			latest = res[i].lingerAt
		}
	}
	if !latest.IsZero() {
		if w := time.Until(latest.Add(*wd)); w > 0 {
			time.Sleep(w)
		}
		lastDumpAt = time.Time{}
		final := dump()
		for i := range res {
			if res[i].linger == "" {
				continue
			}
			still := []string{}
			now := c18BlockedSignature(final, scs[i].Idx)
			for _, x := range strings.Split(res[i].linger, " || ") {
				for _, y := range strings.Split(now, " || ") {
					if x == y {
						still = append(still, x)
					}
				}
			}
			if len(still) > 0 {
				res[i].Completed = false
				res[i].Pending = append(res[i].Pending, "background goroutine")
				res[i].Blocked = strings.Join(still, " || ")
			}
		}
	}
	cf := NewCaseFile("From PS Require Import Gen.Tables Model.C18Corr.", "c18_case", "c18_check", "c18_monitor")
	matN := map[string]int{"not_yet": 0, "just": 1, "long": 2}
	ordN := map[string]int{"trigger_first": 0, "block_first": 1, "concurrent": 2}
	for i, sc := range scs {
		o := res[i]
		if o.SetupErr != "" {
			return fmt.Errorf("scenario %d setup: %s", sc.Idx, o.SetupErr)
		}
		term := fmt.Sprintf("mkC18 %s %s %s %d %d %s %s %s %d %s", c18TableName(sc.Role), CoqStr(o.Start), CoqStr(sc.Trigger), matN[sc.Maturity], ordN[sc.Order],
			CoqStr(sc.Watcher), CoqBool(o.Completed), CoqStr(o.Final), o.CsvSpends, CoqBool(o.Active))
		key := fmt.Sprintf("%s/%s/%s/%s/%s", sc.Role, sc.Watcher, sc.Maturity, sc.Trigger, sc.Order)
		cf.Add(term, key, true, sc.Watcher+"/"+sc.Maturity+"/"+sc.Order, map[string]interface{}{"scenario": sc, "observed": o,
			"replay": fmt.Sprintf("psh c18 -seed %d -rounds %d -only %d", *seed, *rounds, sc.Idx)})
	}
	return cf.Write(*out, 500, map[string]interface{}{"watchdog_s": wd.Seconds()})
}

func init() {
	register("c18", "deadlock scenarios: real SwapService + real watchers over a simulated chain, cancel/failed coop close around CSV maturity", runC18)
}
