package main

// Thread-safe fakes for the concurrency harnesses (C18 deadlock scenarios, C19 race stress): a simulated chain that
// serves both the real BlockchainRpcTxWatcher (as its bitcoind/elementsd RPC) and the real lwk electrum watcher
// (as its electrum RPC), a wallet/validator, a Lightning client, a messenger and a message-sender manager. Every
// fake guards its own state with its own mutex, so that a race report always points into peerswap code.

import (
	"context"
	"crypto/sha256"
	"encoding/hex"
	"errors"
	"fmt"
	"os"
	"path/filepath"
	"strings"
	"sync"
	"sync/atomic"
	"time"

	goelectrum "github.com/checksum0/go-electrum/electrum"
	"github.com/elementsproject/peerswap/lwk"
	"github.com/elementsproject/peerswap/messages"
	"github.com/elementsproject/peerswap/policy"
	"github.com/elementsproject/peerswap/premium"
	"github.com/elementsproject/peerswap/swap"
	"github.com/elementsproject/peerswap/txwatcher"
	"go.etcd.io/bbolt"
)

var errC18 = errors.New("c18 fake: refused")

// ---------------------------------------------------------------- simulated chain

type c18Tx struct {
	txid   string
	script []byte
	height int64 // block it is mined in
}

type c18Chain struct {
	mu      sync.Mutex
	height  int64
	txs     map[string]*c18Tx // by txid
	subs    []chan *goelectrum.SubscribeHeadersResult
	nTxOut  int64
}

func c18NewChain(height int64) *c18Chain {
	return &c18Chain{height: height, txs: map[string]*c18Tx{}}
}

func (c *c18Chain) Height() int64 { c.mu.Lock(); defer c.mu.Unlock(); return c.height }

// SetHeight moves the tip; the electrum subscription gets a header (non blocking)
func (c *c18Chain) SetHeight(h int64) {
	c.mu.Lock()
	c.height = h
	subs := append([]chan *goelectrum.SubscribeHeadersResult{}, c.subs...)
	c.mu.Unlock()
	for _, ch := range subs {
		select {
		case ch <- &goelectrum.SubscribeHeadersResult{Height: int32(h)}:
		default:
		}
	}
}

func (c *c18Chain) subscribe() chan *goelectrum.SubscribeHeadersResult {
	ch := make(chan *goelectrum.SubscribeHeadersResult, 256)
	c.mu.Lock()
	ch <- &goelectrum.SubscribeHeadersResult{Height: int32(c.height)}
	c.subs = append(c.subs, ch)
	c.mu.Unlock()
	return ch
}

func (c *c18Chain) AddTx(txid string, script []byte, height int64) {
	c.mu.Lock()
	c.txs[txid] = &c18Tx{txid: txid, script: script, height: height}
	c.mu.Unlock()
}

func c18BlockHash(h int64) string { return fmt.Sprintf("%064x", h) }

// bitcoind / elementsd RPC used by txwatcher.BlockchainRpcTxWatcher
func (c *c18Chain) GetBlockHeight() (uint64, error) {
	c.mu.Lock()
	defer c.mu.Unlock()
	return uint64(c.height), nil
}
func (c *c18Chain) GetTxOut(txid string, vout uint32) (*txwatcher.TxOutResp, error) {
	atomic.AddInt64(&c.nTxOut, 1)
	c.mu.Lock()
	defer c.mu.Unlock()
	t, ok := c.txs[txid]
	if !ok || t.height > c.height {
		return nil, nil
	}
	return &txwatcher.TxOutResp{BestBlockHash: c18BlockHash(c.height), Confirmations: uint32(c.height - t.height + 1), Value: 1}, nil
}
func (c *c18Chain) GetBlockHash(height uint32) (string, error) {
	c.mu.Lock()
	defer c.mu.Unlock()
	if int64(height) > c.height {
		return "", errors.New("Block height out of range")
	}
	return c18BlockHash(int64(height)), nil
}
func (c *c18Chain) GetRawtransactionWithBlockHash(txId string, blockHash string) (string, error) {
	c.mu.Lock()
	defer c.mu.Unlock()
	t, ok := c.txs[txId]
	if !ok || t.height > c.height || c18BlockHash(t.height) != blockHash {
		return "", errors.New("No such transaction found in the provided block")
	}
	return "rawtx-" + txId, nil
}

// electrum RPC used by lwk.electrumTxWatcher
type c18Electrum struct {
	c  *c18Chain
	ch chan *goelectrum.SubscribeHeadersResult
}

func c18ScriptHash(script []byte) string {
	h := sha256.Sum256(script)
	rev := make([]byte, len(h))
	for i, b := range h {
		rev[len(h)-1-i] = b
	}
	return fmt.Sprintf("%X", rev)
}
func (e *c18Electrum) SubscribeHeaders(ctx context.Context) (<-chan *goelectrum.SubscribeHeadersResult, error) {
	return e.ch, nil
}
func (e *c18Electrum) GetHistory(ctx context.Context, scripthash string) ([]*goelectrum.GetMempoolResult, error) {
	e.c.mu.Lock()
	defer e.c.mu.Unlock()
	out := []*goelectrum.GetMempoolResult{}
	for _, t := range e.c.txs {
		if strings.EqualFold(c18ScriptHash(t.script), scripthash) {
			h := int32(t.height)
			if t.height > e.c.height {
				h = 0
			}
			out = append(out, &goelectrum.GetMempoolResult{Hash: t.txid, Height: h})
		}
	}
	return out, nil
}
func (e *c18Electrum) GetRawTransaction(ctx context.Context, txHash string) (string, error) {
	return "rawtx-" + txHash, nil
}
func (e *c18Electrum) BroadcastTransaction(ctx context.Context, rawTx string) (string, error) {
	return "", errC18
}
func (e *c18Electrum) GetFee(ctx context.Context, target uint32) (float32, error) { return 0, errC18 }
func (e *c18Electrum) Ping(ctx context.Context) error                              { return nil }
func (e *c18Electrum) Reboot(ctx context.Context) error                            { return nil }

// ---------------------------------------------------------------- wallet + validator

type c18Wallet struct {
	mu       sync.Mutex
	chain    *c18Chain
	name     string // "btc" / "lbtc"
	n        int
	coopFail bool
	csvSpent map[string]int // opening txid -> number of csv spends built
	confirm  int64          // opening tx is mined this many blocks above the tip at broadcast (1 = next block)
	scripts  map[string][]byte
}

func c18Hex32(tag byte, n int) string {
	b := make([]byte, 32)
	b[0] = tag
	b[28], b[29], b[30], b[31] = byte(n>>24), byte(n>>16), byte(n>>8), byte(n)
	return hex.EncodeToString(b)
}

func (w *c18Wallet) scriptFor(p *swap.OpeningParams) []byte {
	h := sha256.Sum256([]byte(p.TakerPubkey + "|" + p.MakerPubkey + "|" + p.ClaimPaymentHash))
	return append([]byte{0x00, 0x20}, h[:]...)
}
func (w *c18Wallet) SetLabel(txID, address, label string) error { return nil }
func (w *c18Wallet) CreateOpeningTransaction(p *swap.OpeningParams) (string, string, string, uint64, uint32, error) {
	w.mu.Lock()
	w.n++
	txid := c18Hex32(0xaa, w.n)
	conf := w.confirm
	w.mu.Unlock()
	w.chain.AddTx(txid, w.scriptFor(p), w.chain.Height()+conf)
	return "rawtx-" + txid, "addr", txid, 150, 0, nil
}
func (w *c18Wallet) CreatePreimageSpendingTransaction(p *swap.OpeningParams, cp *swap.ClaimParams) (string, string, string, error) {
	w.mu.Lock()
	defer w.mu.Unlock()
	w.n++
	return c18Hex32(0xbb, w.n), "rawspend", "addr", nil
}
func (w *c18Wallet) CreateCsvSpendingTransaction(p *swap.OpeningParams, cp *swap.ClaimParams) (string, string, string, error) {
	w.mu.Lock()
	defer w.mu.Unlock()
	w.n++
	w.csvSpent[cp.OpeningTxHex]++
	return c18Hex32(0xcc, w.n), "rawspend", "addr", nil
}
func (w *c18Wallet) CreateCoopSpendingTransaction(p *swap.OpeningParams, cp *swap.ClaimParams, s swap.Signer) (string, string, string, error) {
	w.mu.Lock()
	defer w.mu.Unlock()
	if w.coopFail {
		return "", "", "", errC18
	}
	w.n++
	return c18Hex32(0xdd, w.n), "rawspend", "addr", nil
}
func (w *c18Wallet) CsvSpends() int {
	w.mu.Lock()
	defer w.mu.Unlock()
	n := 0
	for _, k := range w.csvSpent {
		n += k
	}
	return n
}
func (w *c18Wallet) GetOutputScript(p *swap.OpeningParams) ([]byte, error) { return w.scriptFor(p), nil }
func (w *c18Wallet) NewAddress() (string, error)                           { return "addr", nil }
func (w *c18Wallet) GetRefundFee() (uint64, error)                         { return 100, nil }
func (w *c18Wallet) GetFlatOpeningTXFee() (uint64, error)                  { return 150, nil }
func (w *c18Wallet) GetAsset() string {
	if w.name == "lbtc" {
		return strings.Repeat("5a", 33)
	}
	return ""
}
func (w *c18Wallet) GetNetwork() string {
	if w.name == "btc" {
		return "regtest"
	}
	return ""
}
func (w *c18Wallet) GetOnchainBalance() (uint64, error) { return 1 << 40, nil }

// validator
func (w *c18Wallet) TxIdFromHex(txHex string) (string, error) { return strings.TrimPrefix(txHex, "rawtx-"), nil }
func (w *c18Wallet) ValidateTx(p *swap.OpeningParams, txHex string) (bool, error) {
	return true, nil
}
func (w *c18Wallet) GetCSVHeight() uint32 {
	if w.name == "btc" {
		return 1008
	}
	return 60
}

// ---------------------------------------------------------------- lightning, messenger, manager, stores

type c18Lightning struct {
	mu       sync.Mutex
	n        int
	invoices map[string][3]string // payreq -> (hash, msat, cltv)
	payCb    func(swapId string, invoiceType swap.InvoiceType)
	notifs   int
}

func (l *c18Lightning) DecodePayreq(payreq string) (string, uint64, int64, error) {
	// payreqs are "pr|<hash>|<msat>|<cltv>"
	parts := strings.Split(payreq, "|")
	if len(parts) != 4 {
		return "", 0, 0, errC18
	}
	var msat uint64
	var cltv int64
	fmt.Sscan(parts[2], &msat)
	fmt.Sscan(parts[3], &cltv)
	return parts[1], msat, cltv, nil
}
func (l *c18Lightning) PayInvoice(payreq string) (string, error) { return c18Hex32(0x11, 1), nil }
func (l *c18Lightning) GetPayreq(msat uint64, preimage string, swapId string, memo string, it swap.InvoiceType, expiry, cltv uint64) (string, error) {
	pre, _ := hex.DecodeString(preimage)
	h := sha256.Sum256(pre)
	return fmt.Sprintf("pr|%x|%d|%d", h, msat, cltv), nil
}
func (l *c18Lightning) PayInvoiceViaChannel(payreq string, channel string) (string, error) {
	return c18Hex32(0x11, 2), nil
}
func (l *c18Lightning) AddPaymentCallback(f func(swapId string, invoiceType swap.InvoiceType)) {
	l.mu.Lock()
	l.payCb = f
	l.mu.Unlock()
}
func (l *c18Lightning) AddPaymentNotifier(swapId string, payreq string, it swap.InvoiceType) {
	l.mu.Lock()
	l.notifs++
	l.mu.Unlock()
}
func (l *c18Lightning) RebalancePayment(payreq string, channel string, maxTotal uint32) (string, error) {
	return c18Hex32(0x11, 3), nil
}
func (l *c18Lightning) RecoverClaimPayment(payreq string) (string, error) { return "", errC18 }
func (l *c18Lightning) CanSpend(amountMsat uint64) error                    { return nil }
func (l *c18Lightning) Implementation() string                             { return "FAKE" }
func (l *c18Lightning) SpendableMsat(scid string) (uint64, error)           { return 1 << 50, nil }
func (l *c18Lightning) ReceivableMsat(scid string) (uint64, error)          { return 1 << 50, nil }
func (l *c18Lightning) ProbePayment(scid string, amountMsat uint64) (bool, string, error) {
	return true, "", nil
}
func (l *c18Lightning) Paid(swapId string, it swap.InvoiceType) {
	l.mu.Lock()
	f := l.payCb
	l.mu.Unlock()
	if f != nil {
		f(swapId, it)
	}
}

type c18Messenger struct {
	mu      sync.Mutex
	sent    map[int]int
	handler func(peerId string, msgType string, payload []byte) error
}

func (m *c18Messenger) SendMessage(peerId string, msg []byte, msgType int) error {
	m.mu.Lock()
	m.sent[msgType]++
	m.mu.Unlock()
	return nil
}
func (m *c18Messenger) AddMessageHandler(f func(peerId string, msgType string, payload []byte) error) {
	m.mu.Lock()
	m.handler = f
	m.mu.Unlock()
}

type c18Manager struct {
	mu      sync.Mutex
	senders map[string]messages.StoppableMessenger
}

func (m *c18Manager) AddSender(id string, ms messages.StoppableMessenger) error {
	m.mu.Lock()
	old := m.senders[id]
	m.senders[id] = ms
	m.mu.Unlock()
	if old != nil {
		old.Stop()
	}
	return nil
}
func (m *c18Manager) RemoveSender(id string) {
	m.mu.Lock()
	old := m.senders[id]
	delete(m.senders, id)
	m.mu.Unlock()
	if old != nil {
		old.Stop()
	}
}
func (m *c18Manager) StopAll() {
	m.mu.Lock()
	defer m.mu.Unlock()
	for _, s := range m.senders {
		s.Stop()
	}
	m.senders = map[string]messages.StoppableMessenger{}
}

type c18ReqStore struct{}

func (s *c18ReqStore) Add(id string, r swap.RequestedSwap) error              { return nil }
func (s *c18ReqStore) Get(id string) ([]swap.RequestedSwap, error)            { return nil, nil }
func (s *c18ReqStore) GetAll() (map[string][]swap.RequestedSwap, error)       { return nil, nil }

// ---------------------------------------------------------------- node

type c18Watcher interface {
	swap.TxWatcher
}

type c18Node struct {
	dir     string
	db      *bbolt.DB
	svc     *swap.SwapService
	to      *swap.VerifTimeouts
	chain   *c18Chain
	rpcW    *txwatcher.BlockchainRpcTxWatcher
	watcher swap.TxWatcher
	wallet  *c18Wallet
	ln      *c18Lightning
	msgr    *c18Messenger
	mgr     *c18Manager
	pol     *policy.Policy
	cancel  context.CancelFunc
	self    string
	peer    string
	chainNm string
}

// c18NewNode builds a real SwapService over a real watcher ("rpc" = txwatcher.BlockchainRpcTxWatcher, "electrum" =
// lwk electrum watcher) reading the simulated chain, a real bbolt swap store and a real policy.Policy read from a file.
// loops: start the watcher's own goroutines (block poller / header subscription).
func c18NewNode(dir, watcherKind, chainNm string, loops bool, reuse *c18Chain) (*c18Node, error) {
	if err := os.MkdirAll(dir, 0o755); err != nil {
		return nil, err
	}
	db, err := bbolt.Open(filepath.Join(dir, "swaps.db"), 0o600, &bbolt.Options{Timeout: 2 * time.Second, NoSync: true, NoFreelistSync: true})
	if err != nil {
		return nil, err
	}
	store, err := swap.NewBboltStore(db)
	if err != nil {
		return nil, err
	}
	ps, err := premium.NewSetting(db)
	if err != nil {
		return nil, err
	}
	polPath := filepath.Join(dir, "policy.conf")
	if _, err := os.Stat(polPath); err != nil {
		if err := os.WriteFile(polPath, []byte("accept_all_peers=true\nallow_new_swaps=true\nmin_swap_amount_msat=1000\n"), 0o644); err != nil {
			return nil, err
		}
	}
	pol, err := policy.CreateFromFile(polPath)
	if err != nil {
		return nil, err
	}
	n := &c18Node{dir: dir, db: db, pol: pol, chainNm: chainNm}
	n.chain = reuse
	if n.chain == nil {
		n.chain = c18NewChain(1000)
	}
	n.wallet = &c18Wallet{chain: n.chain, name: chainNm, csvSpent: map[string]int{}, confirm: 1}
	n.ln = &c18Lightning{}
	n.msgr = &c18Messenger{sent: map[int]int{}}
	n.mgr = &c18Manager{senders: map[string]messages.StoppableMessenger{}}
	n.self = "02" + strings.Repeat("11", 32)
	n.peer = "03" + strings.Repeat("22", 32)
	_ = store
	_ = ps
	return c18Assemble(n, watcherKind, loops)
}

// c18Assemble: watcher, services and service over the node's database, chain, wallet and policy
func c18Assemble(n *c18Node, watcherKind string, loops bool) (*c18Node, error) {
	store, err := swap.NewBboltStore(n.db)
	if err != nil {
		return nil, err
	}
	ps, err := premium.NewSetting(n.db)
	if err != nil {
		return nil, err
	}
	ctx, cancel := context.WithCancel(context.Background())
	prev := n.cancel
	n.cancel = func() {
		cancel()
		if prev != nil {
			prev()
		}
	}
	n.rpcW = nil
	switch watcherKind {
	case "rpc":
		n.rpcW = txwatcher.NewBlockchainRpcTxWatcher(ctx, n.chain, 2)
		n.watcher = n.rpcW
	case "electrum":
		w, err := lwk.NewElectrumTxWatcher(&c18Electrum{c: n.chain, ch: n.chain.subscribe()})
		if err != nil {
			return nil, err
		}
		n.watcher = w
	default:
		return nil, fmt.Errorf("unknown watcher kind %q", watcherKind)
	}
	btcOn, lbtcOn := n.chainNm == "btc", n.chainNm == "lbtc"
	services := swap.NewSwapServices(store, &c18ReqStore{}, n.ln, n.msgr, n.mgr, n.pol,
		btcOn, n.wallet, n.wallet, n.watcher, lbtcOn, n.wallet, n.wallet, n.watcher, ps)
	n.svc = swap.NewSwapService(services)
	to, err := n.svc.VerifStart()
	if err != nil {
		return nil, err
	}
	n.to = to
	if loops || watcherKind == "electrum" {
		if err := n.watcher.StartWatchingTxs(); err != nil {
			return nil, err
		}
	}
	return n, nil
}

func messageTypeOf(t int) messages.MessageType { return messages.MessageType(t) }

func (n *c18Node) Close() {
	n.cancel()
	n.mgr.StopAll()
	n.db.Close()
}

// ---- peer side helpers

func (n *c18Node) scid() string { return "100x1x0" }

func (n *c18Node) deliver(msg swap.PeerMessage) error {
	b, t, err := swap.MarshalPeerswapMessage(msg)
	if err != nil {
		return err
	}
	return n.svc.OnMessageReceived(n.peer, messages.MessageTypeToHexString(messages.MessageType(t)), b)
}

func c18PeerPubkey() string { return "02" + strings.Repeat("33", 32) }

// c18MakerToAwaitPayment drives a maker (role in_sender / out_receiver) to the state in which it waits for the claim
// payment or the CSV; returns the swap id.
func (n *c18Node) makerToAwaitPayment(role string, amount uint64) (*swap.SwapStateMachine, error) {
	switch role {
	case "in_sender":
		sm, err := n.svc.SwapIn(n.peer, n.chainNm, n.scid(), n.self, amount, 100000)
		if err != nil {
			return nil, fmt.Errorf("SwapIn: %w", err)
		}
		if err := n.deliver(&swap.SwapInAgreementMessage{ProtocolVersion: swap.PEERSWAP_PROTOCOL_VERSION, SwapId: sm.SwapId, Pubkey: c18PeerPubkey(), Premium: 0}); err != nil {
			return nil, fmt.Errorf("agreement: %w", err)
		}
		return sm, nil
	case "out_receiver":
		id := swap.NewSwapId()
		req := &swap.SwapOutRequestMessage{ProtocolVersion: swap.PEERSWAP_PROTOCOL_VERSION, SwapId: id, Asset: n.wallet.GetAsset(), Network: n.wallet.GetNetwork(),
			Scid: n.scid(), Amount: amount, Pubkey: c18PeerPubkey(), PremiumLimit: 1 << 40}
		if err := n.deliver(req); err != nil {
			return nil, fmt.Errorf("request: %w", err)
		}
		sm := n.svc.VerifActiveSwap(id.String())
		if sm == nil {
			return nil, fmt.Errorf("swap-out request was not accepted")
		}
		n.ln.Paid(id.String(), swap.INVOICE_FEE)
		return sm, nil
	}
	return nil, fmt.Errorf("unknown role %s", role)
}
