package main

// Extension points of the fsm scenario generator used by the C01/C05/C12 files (kept beside the
// driver-level extension points of fsm_ext.go):
//   registerStep(prefix, f)  - scripted step names "prefix" or "prefix:arg" usable in directed scenarios
//   registerFocus(id, f)     - bias of the random scenarios when psh fsm is run with -focus id
// (three call sites in fsm_gen.go are the only edits to shared files)

import "strings"

type f1Step func(sc *Scen, arg string)

var f1Steps = map[string]f1Step{}

func registerStep(prefix string, f f1Step) { f1Steps[prefix] = f }

func runExtStep(sc *Scen, n string) bool {
	name, arg := n, ""
	if i := strings.Index(n, ":"); i >= 0 {
		name, arg = n[:i], n[i+1:]
	}
	if f, ok := f1Steps[name]; ok {
		f(sc, arg)
		return true
	}
	return false
}

// ext steps whose name starts with "pre_" or "start_" / "request_" may run before the swap exists
func extStepRunsFresh(n string) bool {
	return strings.HasPrefix(n, "pre_") || strings.HasPrefix(n, "start_") || strings.HasPrefix(n, "request_")
}

type focusFn func(sc *Scen, idx int)

var focusFns = map[string]focusFn{}

func registerFocus(id string, f focusFn) { focusFns[id] = f }

func applyFocus(sc *Scen, focus string, idx int) {
	if f, ok := focusFns[focus]; ok {
		f(sc, idx)
	}
}
