package main

// Static scan (go/ast) of the repository's non-test Go files for writes to a field named
// LastMessage (assignment through a selector, or a composite-literal key). The result is dumped
// into Gen/SwapSchema.v so that "last_message is never assigned" is re-checked on every run.

import (
	"fmt"
	"go/ast"
	"go/parser"
	"go/token"
	"os"
	"path/filepath"
	"runtime/debug"
	"sort"
	"strings"
)

func peerswapDir() (string, error) {
	bi, ok := debug.ReadBuildInfo()
	if !ok {
		return "", fmt.Errorf("no build info")
	}
	for _, d := range bi.Deps {
		if d.Path == "github.com/elementsproject/peerswap" && d.Replace != nil {
			return d.Replace.Path, nil
		}
	}
	return "", fmt.Errorf("peerswap module replacement not found in build info")
}

func scanFieldWrites(field string) ([]string, error) {
	root, err := peerswapDir()
	if err != nil {
		return nil, err
	}
	out := []string{}
	fset := token.NewFileSet()
	err = filepath.Walk(root, func(path string, info os.FileInfo, err error) error {
		if err != nil {
			return err
		}
		if info.IsDir() {
			n := info.Name()
			if path != root && (strings.HasPrefix(n, ".") || n == "vendor" || n == "testdata" || n == "node_modules") {
				return filepath.SkipDir
			}
			return nil
		}
		if !strings.HasSuffix(path, ".go") || strings.HasSuffix(path, "_test.go") {
			return nil
		}
		f, err := parser.ParseFile(fset, path, nil, parser.SkipObjectResolution)
		if err != nil {
			return nil // not our business: the build would fail elsewhere
		}
		rel, _ := filepath.Rel(root, path)
		ast.Inspect(f, func(n ast.Node) bool {
			switch x := n.(type) {
			case *ast.AssignStmt:
				for _, l := range x.Lhs {
					if s, ok := l.(*ast.SelectorExpr); ok && s.Sel.Name == field {
						out = append(out, fmt.Sprintf("%s:%d", rel, fset.Position(s.Pos()).Line))
					}
				}
			case *ast.KeyValueExpr:
				if id, ok := x.Key.(*ast.Ident); ok && id.Name == field {
					out = append(out, fmt.Sprintf("%s:%d", rel, fset.Position(x.Pos()).Line))
				}
			case *ast.UnaryExpr:
				if x.Op == token.AND {
					if s, ok := x.X.(*ast.SelectorExpr); ok && s.Sel.Name == field {
						out = append(out, fmt.Sprintf("%s:%d", rel, fset.Position(s.Pos()).Line))
					}
				}
			}
			return true
		})
		return nil
	})
	sort.Strings(out)
	return out, err
}
