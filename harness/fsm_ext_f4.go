package main

// Further extension points of the fsm scenario driver for per-property files (C16, C17, C22, C26);
// the step names are plugged into the shared driver through registerStepKind:
//   registerStepF4("name", f)          a new directed step name (exact match)
//   registerStepPrefix("pfx", f)     a family of step names "pfx<arg>"
//   registerFreshStep("name")        the step may run before a swap id exists (it creates the swap)
//   registerTail("Cxx", f)           runs after every scenario when psh fsm is called with -focus Cxx
//   registerDirectedFor("Cxx", ds)   directed scenarios that run only with -focus Cxx (after the shared ones)
import "strings"

var extraSteps = map[string]func(sc *Scen){}
var extraStepPrefixes = map[string]func(sc *Scen, arg string){}
var freshExtraSteps = map[string]bool{}
var scenarioTails = map[string]func(sc *Scen){}
var directedFor = map[string][]directed{}

func registerStepF4(name string, f func(sc *Scen))                   { extraSteps[name] = f }
func registerStepPrefix(prefix string, f func(sc *Scen, a string)) { extraStepPrefixes[prefix] = f }
func registerFreshStep(prefix string)                              { freshExtraSteps[prefix] = true }
func registerTail(focus string, f func(sc *Scen))                  { scenarioTails[focus] = f }
func registerDirectedFor(focus string, ds ...directed) {
	directedFor[focus] = append(directedFor[focus], ds...)
}

// called once by runFsm: the focus' own directed scenarios follow the shared ones
func addFocusDirected(focus string) {
	directedScenarios = append(directedScenarios, directedFor[focus]...)
}

func runExtraStep(sc *Scen, n string) bool {
	if f, ok := extraSteps[n]; ok {
		f(sc)
		return true
	}
	for p, f := range extraStepPrefixes {
		if strings.HasPrefix(n, p) {
			f(sc, strings.TrimPrefix(n, p))
			return true
		}
	}
	return false
}

func init() { registerStepKind(runExtraStep) }

func isFreshExtraStep(n string) bool {
	for p := range freshExtraSteps {
		if strings.HasPrefix(n, p) {
			return true
		}
	}
	return false
}

func runScenarioTail(sc *Scen, focus string) {
	if f, ok := scenarioTails[focus]; ok && sc != nil {
		f(sc)
	}
}
