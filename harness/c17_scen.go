package main

// C17: negotiation waits are bounded by timeouts, also after restarts.
//
//  * step observer "c17": the durations (seconds) of the negotiation timers armed in the step
//    (the shared effect vocabulary has EArmTimer without its duration).
//  * directed scenarios: the timer fires / the node restarts in each negotiation wait.

import "fmt"

func init() {
	registerObserver("c17", func(sc *Scen, rec *stepRecord) string {
		secs := []string{}
		if effs, ok := rec.JS["effects"].([]interface{}); ok {
			for _, e := range effs {
				if m, ok := e.(map[string]interface{}); ok && m["e"] == "ArmTimer" {
					if s, ok := m["seconds"].(float64); ok {
						secs = append(secs, fmt.Sprintf("%d%%Z", int64(s)))
					}
				}
			}
		}
		return CoqList(secs)
	})
	registerDirectedFor("C17",
		// the requester gets no agreement: timer fires / restart / restart then (stale) timer
		directed{"out_sender", "btc", []string{"start", "timeout"}},
		directed{"out_sender", "lbtc", []string{"start", "restart"}},
		directed{"out_sender", "btc", []string{"start", "restart", "timeout"}},
		directed{"in_sender", "btc", []string{"start", "timeout"}},
		directed{"in_sender", "lbtc", []string{"start", "restart"}},
		directed{"in_sender", "btc", []string{"start", "restart", "restart"}},
		// the swap-out responder's fee invoice is never paid
		directed{"out_receiver", "btc", []string{"request", "timeout"}},
		directed{"out_receiver", "lbtc", []string{"request", "timeout", "paid_fee"}},
		directed{"out_receiver", "btc", []string{"request", "restart"}},
		directed{"out_receiver", "lbtc", []string{"request", "restart", "timeout"}},
		// the timer fires after the negotiation is over: nothing may happen
		directed{"out_receiver", "btc", []string{"request", "paid_fee", "timeout", "paid_claim"}},
		directed{"in_sender", "btc", []string{"start", "in_agreement", "timeout", "paid_claim"}},
		directed{"in_receiver", "btc", []string{"request", "timeout"}},
	)
}
