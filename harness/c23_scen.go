package main

// C23: scripted scenarios - every path that ends in a cancel or a coop_close, for all roles,
// so that each message type is sent (and byte-scanned) on every run.

func init() {
	registerDirected(
		directed{"out_sender", "lbtc", []string{"start", "out_agreement", "otb", "tip=anchor+61", "tx_confirmed"}},
		directed{"out_sender", "btc", []string{"start", "out_agreement", "otb", "tx_confirmed", "timeout"}},
		directed{"in_receiver", "lbtc", []string{"request", "otb", "cancel"}},
		directed{"in_receiver", "btc", []string{"request", "timeout"}},
		directed{"in_receiver", "btc", []string{"request", "otb", "tx_confirmed", "restart"}},
		directed{"out_receiver", "lbtc", []string{"request", "paid_fee", "coop"}},
		directed{"out_receiver", "btc", []string{"request", "cancel"}},
		directed{"out_receiver", "lbtc", []string{"request", "paid_fee", "restart", "paid_claim"}},
		directed{"in_sender", "lbtc", []string{"start", "in_agreement", "paid_claim"}},
		directed{"in_sender", "btc", []string{"start", "in_agreement", "cancel", "coop"}},
		directed{"in_sender", "lbtc", []string{"start", "timeout"}},
		directed{"out_sender", "lbtc", []string{"start", "timeout"}},
		// faults whose error texts travel in the cancel message: the wallet cannot create the opening transaction
		// (the maker has just drawn the claim preimage), the height lookup fails, the coop_close or the first
		// message of the step cannot be delivered and the cancel that follows can
		directed{"out_receiver", "btc", []string{"request", "opening=fail:paid_fee"}},
		directed{"out_receiver", "lbtc", []string{"request", "opening=fail:paid_fee"}},
		directed{"in_sender", "lbtc", []string{"start", "opening=fail:in_agreement"}},
		directed{"in_sender", "btc", []string{"start", "opening=fail:in_agreement"}},
		directed{"out_receiver", "btc", []string{"request", "height=fail:paid_fee"}},
		directed{"out_sender", "btc", []string{"start", "out_agreement", "send=fail:cancel"}},
		directed{"out_sender", "lbtc", []string{"start", "out_agreement", "otb", "send=fail:cancel"}},
		directed{"out_sender", "lbtc", []string{"start", "out_agreement", "otb", "tip=anchor+61", "send=fail:tx_confirmed"}},
		directed{"in_receiver", "btc", []string{"request", "otb", "send=fail:cancel"}},
		directed{"in_receiver", "lbtc", []string{"request", "send=fail:timeout"}},
		directed{"in_receiver", "btc", []string{"request", "otb", "send=fail:timeout"}},
		directed{"out_sender", "btc", []string{"height=fail:start"}},
		directed{"in_receiver", "lbtc", []string{"height=fail:request"}},
		directed{"out_sender", "lbtc", []string{"height=fail:start"}},
		directed{"in_receiver", "btc", []string{"height=fail:request"}},
	)
}
