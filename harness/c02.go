package main

// C02 — opening output spendable only by preimage+taker, taker+maker, or maker
// after CSV.  Three things live here:
//   * dump "Script.v": the opening script the node really builds for each
//     chain / protocol version (bytes from the real GetOutputScript /
//     ParamsToTxScript path, with marker keys), DISASSEMBLED into a Coq opcode
//     list parameterised by the two keys and the payment hash;
//   * family "script": ParamsToTxScript on generated hex strings / csv values
//     (error paths, push encodings, AddInt64 encodings);
//   * family "chain": the script of each chain for random real keys;
//   * family "engine": btcd's txscript engine on real P2WSH spends with real
//     signatures, exhaustively over witness stacks built from tagged items.

import (
	"bytes"
	"crypto/sha256"
	"encoding/hex"
	"flag"
	"fmt"
	"strings"
	"sync"

	"github.com/btcsuite/btcd/btcec/v2"
	"github.com/btcsuite/btcd/btcutil"
	"github.com/btcsuite/btcd/chaincfg"
	"github.com/btcsuite/btcd/chaincfg/chainhash"
	"github.com/btcsuite/btcd/txscript"
	"github.com/btcsuite/btcd/wire"
	"github.com/elementsproject/peerswap/onchain"
	"github.com/elementsproject/peerswap/swap"
	"github.com/vulpemventures/go-elements/address"
	"github.com/vulpemventures/go-elements/network"
)

// ---------- chains

type c02Chain struct {
	id      int
	name    string
	liquid  bool
	version uint8
	coqName string
}

var c02Chains = []c02Chain{
	{0, "bitcoin-v7", false, swap.PEERSWAP_PROTOCOL_VERSION, "bitcoin"},
	{1, "liquid-v7", true, swap.PEERSWAP_PROTOCOL_VERSION, "liquid"},
	{2, "liquid-v6", true, 6, "liquid_legacy"},
	{3, "bitcoin-v6", false, 6, "bitcoin_legacy"},
}

var (
	c02Btc  = onchain.NewBitcoinOnChain(nil, 0, 0, &chaincfg.RegressionNetParams)
	c02Lbtc = onchain.NewLiquidOnChain(nil, &network.Regtest)
)

// c02OpeningParams builds the swap data a node would hold for this chain and
// protocol version and asks the real code for the opening parameters (this is
// where the timelock policy's CSV enters).
func c02OpeningParams(ch c02Chain, takerHex, makerHex, hashHex string) *swap.OpeningParams {
	req := &swap.SwapOutRequestMessage{ProtocolVersion: ch.version, Amount: 100000, Pubkey: takerHex, Scid: "1x1x1"}
	if ch.liquid {
		req.Asset = network.Regtest.AssetID
	} else {
		req.Network = "regtest"
	}
	sd := &swap.SwapData{
		SwapOutRequest:   req,
		SwapOutAgreement: &swap.SwapOutAgreementMessage{ProtocolVersion: ch.version, Pubkey: makerHex},
		ClaimPaymentHash: hashHex,
	}
	return sd.GetOpeningParams()
}

// c02ChainScript returns the witness script that the chain's own
// GetOutputScript commits to (found among the candidate CSV sources the code
// has), the csv it was built with and the output script.
func c02ChainScript(ch c02Chain, p *swap.OpeningParams) (redeem []byte, csv uint32, pkScript []byte, err error) {
	var cands []uint32
	if ch.liquid {
		pkScript, err = c02Lbtc.GetOutputScript(p)
		cands = []uint32{p.CSV, c02Lbtc.GetCSVHeight(), onchain.LiquidCsv}
	} else {
		pkScript, err = c02Btc.GetOutputScript(p)
		cands = []uint32{onchain.BitcoinCsv, p.CSV, c02Btc.GetCSVHeight()}
	}
	if err != nil {
		return nil, 0, nil, err
	}
	// other values a changed tree might use
	for d := uint32(0); d < 12000; d++ {
		cands = append(cands, d)
	}
	for _, c := range cands {
		rs, e := onchain.ParamsToTxScript(p, c)
		if e != nil {
			continue
		}
		h := sha256.Sum256(rs)
		want := append([]byte{0x00, 0x20}, h[:]...)
		if bytes.Equal(want, pkScript) {
			return rs, c, pkScript, nil
		}
	}
	return nil, 0, nil, fmt.Errorf("%s: no ParamsToTxScript(params, csv) hashes to the output script the chain commits to", ch.name)
}

// c02Wallet is the only fake: the Liquid wallet daemon.  It records the
// address the node asks it to fund and then fails.
type c02Wallet struct{ addr string }

func (w *c02Wallet) GetAddress() (string, error)                  { return "", fmt.Errorf("fake") }
func (w *c02Wallet) SendToAddress(string, uint64) (string, error) { return "", fmt.Errorf("fake") }
func (w *c02Wallet) GetBalance() (uint64, error)                  { return 0, nil }
func (w *c02Wallet) CreateAndBroadcastTransaction(p *swap.OpeningParams, asset []byte) (string, string, uint64, error) {
	w.addr = p.OpeningAddress
	return "", "", 0, fmt.Errorf("fake wallet: not broadcasting")
}
func (w *c02Wallet) SendRawTx(string) (string, error)      { return "", fmt.Errorf("fake") }
func (w *c02Wallet) GetFee(int64) (uint64, error)          { return 0, fmt.Errorf("fake") }
func (w *c02Wallet) SetLabel(string, string, string) error { return nil }
func (w *c02Wallet) Ping() (bool, error)                   { return true, nil }

// c02CreationScript returns the output script of the address the node funds
// when it creates the opening transaction (Bitcoin: CreateOpeningAddress as
// called by the cln/lnd wallets; Liquid: CreateOpeningTransaction up to the
// wallet call).
func c02CreationScript(ch c02Chain, p *swap.OpeningParams, r *Rng) ([]byte, error) {
	if !ch.liquid {
		a, err := c02Btc.CreateOpeningAddress(p, onchain.BitcoinCsv)
		if err != nil {
			return nil, err
		}
		ad, err := btcutil.DecodeAddress(a, &chaincfg.RegressionNetParams)
		if err != nil {
			return nil, err
		}
		return txscript.PayToAddrScript(ad)
	}
	w := &c02Wallet{}
	q := *p
	q.BlindingKey = c02RandKey(r)
	onchain.NewLiquidOnChain(w, &network.Regtest).CreateOpeningTransaction(&q)
	if w.addr == "" {
		return nil, fmt.Errorf("liquid CreateOpeningTransaction did not reach the wallet")
	}
	return address.ToOutputScript(w.addr)
}

// ---------- Coq printers

func coqBytes(b []byte) string {
	var s strings.Builder
	s.WriteString("[")
	for i, x := range b {
		if i > 0 {
			s.WriteString(";")
		}
		fmt.Fprintf(&s, "%d", x)
	}
	s.WriteString("]%N")
	return s.String()
}

var c02OpNames = map[byte]string{
	txscript.OP_IF: "OP_IF", txscript.OP_NOTIF: "OP_NOTIF", txscript.OP_ELSE: "OP_ELSE", txscript.OP_ENDIF: "OP_ENDIF",
	txscript.OP_SIZE: "OP_SIZE", txscript.OP_EQUALVERIFY: "OP_EQUALVERIFY", txscript.OP_SHA256: "OP_SHA256",
	txscript.OP_CHECKSIG: "OP_CHECKSIG", txscript.OP_CHECKSEQUENCEVERIFY: "OP_CSV",
}

// c02Disasm disassembles script bytes with btcd's tokenizer into Coq opcodes;
// pushes equal to a marker become the corresponding variable.
func c02Disasm(script []byte, markers map[string]string) ([]string, error) {
	var ops []string
	tok := txscript.MakeScriptTokenizer(0, script)
	for tok.Next() {
		o := tok.Opcode()
		var pushed []byte
		isPush := true
		switch {
		case o == txscript.OP_0:
			pushed = []byte{}
		case o <= txscript.OP_PUSHDATA4:
			pushed = tok.Data()
		case o == txscript.OP_1NEGATE:
			pushed = []byte{0x81}
		case o >= txscript.OP_1 && o <= txscript.OP_16:
			pushed = []byte{o - (txscript.OP_1 - 1)}
		default:
			isPush = false
		}
		if isPush {
			if v, ok := markers[string(pushed)]; ok {
				ops = append(ops, "OP_PUSH "+v)
			} else {
				ops = append(ops, "OP_PUSH "+coqBytes(pushed))
			}
			continue
		}
		if n, ok := c02OpNames[o]; ok {
			ops = append(ops, n)
		} else {
			ops = append(ops, fmt.Sprintf("OP_UNKNOWN %d", o))
		}
	}
	if err := tok.Err(); err != nil {
		return nil, err
	}
	return ops, nil
}

func c02Markers() (taker, maker, hash []byte) {
	taker = append([]byte{0x02}, bytes.Repeat([]byte{0xaa}, 32)...)
	maker = append([]byte{0x03}, bytes.Repeat([]byte{0xbb}, 32)...)
	hash = bytes.Repeat([]byte{0xcc}, 32)
	return
}

func init() {
	registerDump("Script.v", func() (string, error) {
		var b strings.Builder
		b.WriteString("From Coq Require Import ZArith NArith List.\nFrom PS Require Import Base.ScriptOps.\nImport ListNotations.\n")
		mt, mm, mh := c02Markers()
		fmt.Fprintf(&b, "Definition marker_taker : bytes := %s.\n", coqBytes(mt))
		fmt.Fprintf(&b, "Definition marker_maker : bytes := %s.\n", coqBytes(mm))
		fmt.Fprintf(&b, "Definition marker_hash : bytes := %s.\n", coqBytes(mh))
		markers := map[string]string{string(mt): "taker", string(mm): "maker", string(mh): "phash"}
		for _, ch := range c02Chains {
			p := c02OpeningParams(ch, hex.EncodeToString(mt), hex.EncodeToString(mm), hex.EncodeToString(mh))
			rs, csv, _, err := c02ChainScript(ch, p)
			if err != nil {
				return "", err
			}
			ops, err := c02Disasm(rs, markers)
			if err != nil {
				return "", err
			}
			fmt.Fprintf(&b, "(* %s: witness script behind the output script the node's %s code commits to *)\n", ch.name, map[bool]string{false: "BitcoinOnChain", true: "LiquidOnChain"}[ch.liquid])
			fmt.Fprintf(&b, "Definition gen_script_%s (taker maker phash : bytes) : list op :=\n  [%s].\n", ch.coqName, strings.Join(ops, "; "))
			fmt.Fprintf(&b, "Definition gen_script_bytes_%s : bytes := %s.\n", ch.coqName, coqBytes(rs))
			fmt.Fprintf(&b, "Definition gen_csv_%s : Z := %d%%Z.\n", ch.coqName, csv)
			fmt.Fprintf(&b, "Definition gen_policy_csv_%s : Z := %d%%Z.\n", ch.coqName, p.CSV)
		}
		// the Liquid code path builds its script with the same function: same bytes for the same csv
		p := c02OpeningParams(c02Chains[1], hex.EncodeToString(mt), hex.EncodeToString(mm), hex.EncodeToString(mh))
		lrs, lcsv, _, err := c02ChainScript(c02Chains[1], p)
		if err != nil {
			return "", err
		}
		direct, err := onchain.GetOpeningTxScript(mt, mm, mh, lcsv)
		if err != nil {
			return "", err
		}
		fmt.Fprintf(&b, "Definition gen_liquid_uses_same_builder : bool := %s.\n", CoqBool(bytes.Equal(direct, lrs)))
		fmt.Fprintf(&b, "Definition gen_onchain_bitcoin_csv : Z := %d%%Z.\n", onchain.BitcoinCsv)
		fmt.Fprintf(&b, "Definition gen_onchain_liquid_csv_height : Z := %d%%Z.\n", onchain.LiquidCsv)
		return b.String(), nil
	})
	register("c02", "opening script: ParamsToTxScript bytes, per-chain script, btcd engine verdicts on exhaustive witness shapes", runC02)
}

// ---------- family "script"

var c02Lens = []int{0, 1, 2, 20, 32, 33, 65, 74, 75, 76, 77, 255, 256, 257, 519, 520, 521, 600}
var c02Csvs = []uint64{0, 1, 2, 15, 16, 17, 59, 60, 61, 127, 128, 129, 255, 256, 1007, 1008, 1009, 10079, 10080, 10081,
	32767, 32768, 65535, 65536, 8388607, 8388608, 1 << 22, 1<<22 | 1008, 1<<31 - 1, 1 << 31, 1<<31 | 1008, 1<<32 - 1}

func c02GenHex(r *Rng) string {
	var n int
	if r.Chance(55) {
		n = int(PickI(r, []int64{32, 33, 33, 33, 65}))
	} else {
		n = c02Lens[r.Intn(len(c02Lens))]
	}
	b := make([]byte, n)
	for i := range b {
		b[i] = byte(r.U64())
	}
	if n == 1 && r.Chance(70) {
		b[0] = byte(PickI(r, []int64{0, 1, 15, 16, 17, 0x80, 0x81, 0x82, 0xff}))
	}
	s := hex.EncodeToString(b)
	if r.Chance(20) {
		s = strings.ToUpper(s)
	}
	switch r.Intn(40) {
	case 0:
		s = s + "a" // odd length
	case 1:
		if len(s) > 0 {
			i := r.Intn(len(s))
			s = s[:i] + PickS(r, []string{"g", "G", " ", "x", "/", ":", "@", "`", "\xc3"}) + s[i+1:]
		}
	case 2:
		s = "0x" + s
	}
	return s
}

func c02ScriptFamily(cf *CaseFile, r *Rng, n int) {
	for i := 0; i < n; i++ {
		t, m, h := c02GenHex(r), c02GenHex(r), c02GenHex(r)
		var csv uint32
		if r.Chance(70) {
			csv = uint32(PickU(r, c02Csvs))
		} else {
			csv = uint32(r.U64())
		}
		out, err := onchain.ParamsToTxScript(&swap.OpeningParams{TakerPubkey: t, MakerPubkey: m, ClaimPaymentHash: h, CSV: 7}, csv)
		kind := "script:ok"
		obs := "None"
		if err != nil {
			kind = "script:err"
		} else {
			obs = "(Some " + coqBytes(out) + ")"
		}
		term := fmt.Sprintf("CScript %s %s %s %d%%Z %s", CoqStr(t), CoqStr(m), CoqStr(h), csv, obs)
		cf.Add(term, fmt.Sprintf("script|%s|%s|%s|%d", t, m, h, csv), true, kind,
			map[string]interface{}{"family": "script", "fn": "ParamsToTxScript", "taker": t, "maker": m, "hash": h, "csv": csv,
				"err": err != nil, "script": hex.EncodeToString(out)})
	}
}

// ---------- family "chain"

func c02RandKey(r *Rng) *btcec.PrivateKey {
	b := make([]byte, 32)
	for i := range b {
		b[i] = byte(r.U64())
	}
	b[0] &= 0x7f
	b[31] |= 1
	k, _ := btcec.PrivKeyFromBytes(b)
	return k
}

func c02ChainFamily(cf *CaseFile, r *Rng, n int) error {
	for i := 0; i < n; i++ {
		ch := c02Chains[i%len(c02Chains)]
		tk, mk := c02RandKey(r).PubKey().SerializeCompressed(), c02RandKey(r).PubKey().SerializeCompressed()
		h := make([]byte, 32)
		for j := range h {
			h[j] = byte(r.U64())
		}
		p := c02OpeningParams(ch, hex.EncodeToString(tk), hex.EncodeToString(mk), hex.EncodeToString(h))
		rs, csv, pk, err := c02ChainScript(ch, p)
		if err != nil {
			return err
		}
		created, err := c02CreationScript(ch, p, r)
		if err != nil {
			return err
		}
		same := bytes.Equal(created, pk)
		term := fmt.Sprintf("CChain %d%%N %s %s %s %d%%Z %s %s", ch.id, coqBytes(tk), coqBytes(mk), coqBytes(h), p.CSV, CoqBool(same), coqBytes(rs))
		cf.Add(term, fmt.Sprintf("chain|%d|%x|%x|%x", ch.id, tk, mk, h), true, "chain:"+ch.name,
			map[string]interface{}{"family": "chain", "fn": "GetOpeningParams+GetOutputScript", "chain": ch.name, "taker": hex.EncodeToString(tk),
				"maker": hex.EncodeToString(mk), "hash": hex.EncodeToString(h), "policy_csv": p.CSV, "script_csv": csv, "script": hex.EncodeToString(rs),
				"output_script_validated": hex.EncodeToString(pk), "output_script_funded_at_creation": hex.EncodeToString(created)})
	}
	return nil
}

// ---------- family "engine"

const (
	tagSigT = iota
	tagSigM
	tagSigO
	tagEmpty
	tagGarbage
	tagP32
	tagW32
	tagP31
	tagP33
	c02NTags
)

var c02TagNames = []string{"sigTaker", "sigMaker", "sigOther", "empty", "garbage", "preimage32", "wrong32", "preimage31", "preimage33"}

// text numbers of the property (used only to choose sequences around them)
var c02TextCsv = []uint32{1008, 10080, 60, 1008}

func c02Seqs(c uint32, full bool) []uint32 {
	if !full {
		return []uint32{c - 1, c}
	}
	return []uint32{0, 1, c - 1, c, c + 1, 0xffff, c | 1<<22, (c - 1) | 1<<16, c | 1<<16, c | 1<<31, 0xffffffff,
		c | 1<<22 | 1<<31, (c - 1) | 1<<23, 0x0040ffff}
}

var c02Flagsets = []txscript.ScriptFlags{
	txscript.StandardVerifyFlags,
	txscript.ScriptBip16 | txscript.ScriptVerifyDERSignatures | txscript.ScriptVerifyCheckLockTimeVerify |
		txscript.ScriptVerifyCheckSequenceVerify | txscript.ScriptVerifyWitness | txscript.ScriptStrictMultiSig | txscript.ScriptVerifyTaproot,
}

type c02World struct {
	ch      c02Chain
	hmode   int
	keymode int
	redeem  []byte
	pk      []byte
	amt     int64
	keys    [3]*btcec.PrivateKey
	pre     map[int][]byte
}

func c02NewWorld(r *Rng, ch c02Chain, hmode, keymode int) (*c02World, error) {
	w := &c02World{ch: ch, hmode: hmode, keymode: keymode, amt: 100000, pre: map[int][]byte{}}
	w.keys[0], w.keys[1], w.keys[2] = c02RandKey(r), c02RandKey(r), c02RandKey(r)
	if keymode == 1 {
		w.keys[0] = w.keys[1]
	}
	mk := func(n int, first byte) []byte {
		b := make([]byte, n)
		for i := range b {
			b[i] = byte(r.U64())
		}
		b[0] = first // never looks like a DER signature
		return b
	}
	w.pre[tagP32], w.pre[tagW32], w.pre[tagP31], w.pre[tagP33] = mk(32, 0x11), mk(32, 0x12), mk(31, 0x13), mk(33, 0x14)
	var h [32]byte
	switch hmode {
	case 0:
		h = sha256.Sum256(w.pre[tagP32])
	case 1:
		h = sha256.Sum256(w.pre[tagP33])
	default:
		h = sha256.Sum256(w.pre[tagP31])
	}
	p := c02OpeningParams(ch, hex.EncodeToString(w.keys[0].PubKey().SerializeCompressed()),
		hex.EncodeToString(w.keys[1].PubKey().SerializeCompressed()), hex.EncodeToString(h[:]))
	var err error
	w.redeem, _, w.pk, err = c02ChainScript(ch, p)
	return w, err
}

// all stacks over the tags with length 0..maxlen, shortest first
func c02Stacks(maxlen int) [][]byte {
	out := [][]byte{{}}
	prev := [][]byte{{}}
	for l := 1; l <= maxlen; l++ {
		var cur [][]byte
		for _, s := range prev {
			for t := 0; t < c02NTags; t++ {
				ns := append(append([]byte{}, s...), byte(t))
				cur = append(cur, ns)
			}
		}
		out = append(out, cur...)
		prev = cur
	}
	return out
}

var c02SigCache = txscript.NewSigCache(200000)

// c02Run executes the real engine for one transaction shape on every stack and
// returns the accepted stacks.
func c02Run(w *c02World, seq uint32, ver int32, flags txscript.ScriptFlags, stacks [][]byte) ([][]byte, error) {
	tx := wire.NewMsgTx(ver)
	prev := chainhash.Hash{1, 2, 3}
	in := wire.NewTxIn(wire.NewOutPoint(&prev, 0), nil, nil)
	in.Sequence = seq
	tx.AddTxIn(in)
	dest, _ := btcutil.NewAddressWitnessPubKeyHash(make([]byte, 20), &chaincfg.RegressionNetParams)
	destScript, _ := txscript.PayToAddrScript(dest)
	tx.AddTxOut(wire.NewTxOut(w.amt-1000, destScript))
	fetcher := txscript.NewCannedPrevOutputFetcher(w.pk, w.amt)
	sigHashes := txscript.NewTxSigHashes(tx, fetcher)
	items := make([][]byte, c02NTags)
	for t, k := range w.keys {
		s, err := txscript.RawTxInWitnessSignature(tx, sigHashes, 0, w.amt, w.redeem, txscript.SigHashAll, k)
		if err != nil {
			return nil, err
		}
		items[t] = s
	}
	items[tagEmpty] = []byte{}
	items[tagGarbage] = []byte{0x01}
	for t, p := range w.pre {
		items[t] = p
	}
	var accepted [][]byte
	for _, st := range stacks {
		wit := make(wire.TxWitness, 0, len(st)+1)
		for _, t := range st {
			wit = append(wit, items[t])
		}
		wit = append(wit, w.redeem)
		tx.TxIn[0].Witness = wit
		vm, err := txscript.NewEngine(w.pk, tx, 0, flags, c02SigCache, sigHashes, w.amt, fetcher)
		if err != nil {
			continue
		}
		if vm.Execute() == nil {
			accepted = append(accepted, st)
		}
	}
	return accepted, nil
}

type c02Job struct {
	w      *c02World
	flags  int
	seq    uint32
	ver    int32
	maxlen int
	acc    [][]byte
	err    error
}

func c02EngineFamily(cf *CaseFile, r *Rng, thorough bool, maxlen int) error {
	var jobs []*c02Job
	stackSets := map[int][][]byte{}
	getStacks := func(l int) [][]byte {
		if s, ok := stackSets[l]; ok {
			return s
		}
		stackSets[l] = c02Stacks(l)
		return stackSets[l]
	}
	for _, ch := range c02Chains {
		for hmode := 0; hmode < 3; hmode++ {
			for keymode := 0; keymode < 2; keymode++ {
				w, err := c02NewWorld(r, ch, hmode, keymode)
				if err != nil {
					return err
				}
				for fl := range c02Flagsets {
					primary := hmode == 0 && keymode == 0 && fl == 0
					if !thorough && ch.id == 3 {
						continue // same script as bitcoin-v7 (checked by the chain family); engine run only in the thorough tier
					}
					add := func(seq uint32, ver int32) {
						ml := maxlen
						if thorough && primary && ver == 2 {
							ml = maxlen + 1
						}
						jobs = append(jobs, &c02Job{w: w, flags: fl, seq: seq, ver: ver, maxlen: ml})
					}
					c := c02TextCsv[ch.id]
					switch {
					case thorough:
						vers := []int32{1, 2}
						if primary {
							vers = []int32{0, 1, 2, 3, -1}
						}
						for _, seq := range c02Seqs(c, true) {
							for _, ver := range vers {
								add(seq, ver)
							}
						}
					case primary:
						for _, seq := range c02Seqs(c, true) {
							add(seq, 2)
						}
						for _, ver := range []int32{0, 1, 3, -1} {
							add(c-1, ver)
							add(c, ver)
						}
					default:
						add(c-1, 2)
						add(c, 2)
					}
				}
			}
		}
	}
	for l := 0; l <= maxlen+1; l++ {
		getStacks(l)
	}
	var wg sync.WaitGroup
	sem := make(chan struct{}, 16)
	for _, j := range jobs {
		wg.Add(1)
		sem <- struct{}{}
		go func(j *c02Job) {
			defer wg.Done()
			defer func() { <-sem }()
			j.acc, j.err = c02Run(j.w, j.seq, j.ver, c02Flagsets[j.flags], stackSets[j.maxlen])
		}(j)
	}
	wg.Wait()
	for _, j := range jobs {
		if j.err != nil {
			return j.err
		}
		var accs []string
		var accNames [][]string
		for _, a := range j.acc {
			xs := make([]string, len(a))
			ns := make([]string, len(a))
			for i, t := range a {
				xs[i] = fmt.Sprintf("%d", t)
				ns[i] = c02TagNames[t]
			}
			accs = append(accs, "["+strings.Join(xs, ";")+"]%N")
			accNames = append(accNames, ns)
		}
		term := fmt.Sprintf("CEngine %d%%N %d%%N %d%%N %d%%N %d%%Z %s %d %s", j.w.ch.id, j.flags, j.w.hmode, j.w.keymode,
			j.seq, CoqZ(int64(j.ver)), j.maxlen, CoqList(accs))
		kind := fmt.Sprintf("engine:%s:flags%d:accepted%d", j.w.ch.name, j.flags, len(j.acc))
		cf.Add(term, fmt.Sprintf("engine|%d|%d|%d|%d|%d|%d|%d", j.w.ch.id, j.flags, j.w.hmode, j.w.keymode, j.seq, j.ver, j.maxlen),
			true, kind, map[string]interface{}{"family": "engine", "fn": "txscript.Engine.Execute", "chain": j.w.ch.name,
				"flags": map[int]string{0: "standard", 1: "consensus"}[j.flags], "hash_is_sha256_of": map[int]string{0: "preimage32", 1: "preimage33", 2: "preimage31"}[j.w.hmode],
				"same_key": j.w.keymode == 1, "sequence": j.seq, "tx_version": j.ver, "max_witness_items": j.maxlen,
				"witness_script": hex.EncodeToString(j.w.redeem), "accepted_witness_stacks": accNames})
	}
	return nil
}

// ---------- family "enginecsv": the same script shape with other csv values, so that
// every branch of the model's number decoding / BIP-112 check is compared with btcd

var c02OtherCsvs = []uint32{0, 1, 2, 16, 17, 127, 128, 255, 256, 32767, 32768, 65535, 65536, 65537,
	1<<22 - 1, 1 << 22, 1<<22 | 5, 1<<31 - 1, 1 << 31, 1<<31 | 5, 0xffffffff}

func c02EngineCsvFamily(cf *CaseFile, r *Rng, thorough bool) error {
	var jobs []*c02Job
	csvOf := map[*c02World]uint32{}
	maxlen := 3
	if thorough {
		maxlen = 4
	}
	stacks := c02Stacks(maxlen)
	for _, csv := range c02OtherCsvs {
		w := &c02World{ch: c02Chain{id: -1, name: fmt.Sprintf("csv%d", csv)}, amt: 100000, pre: map[int][]byte{}}
		w.keys[0], w.keys[1], w.keys[2] = c02RandKey(r), c02RandKey(r), c02RandKey(r)
		for t, n := range map[int]int{tagP32: 32, tagW32: 32, tagP31: 31, tagP33: 33} {
			b := make([]byte, n)
			for i := range b {
				b[i] = byte(r.U64())
			}
			b[0] = byte(0x10 + t)
			w.pre[t] = b
		}
		h := sha256.Sum256(w.pre[tagP32])
		var err error
		w.redeem, err = onchain.GetOpeningTxScript(w.keys[0].PubKey().SerializeCompressed(), w.keys[1].PubKey().SerializeCompressed(), h[:], csv)
		if err != nil {
			return err
		}
		ph := sha256.Sum256(w.redeem)
		w.pk = append([]byte{0x00, 0x20}, ph[:]...)
		csvOf[w] = csv
		low := csv & 0xffff
		seqs := []uint32{0, low, low - 1, csv, csv | 1<<22, csv &^ (1 << 31), 0xffff, 1<<22 | 0xffff, 0x7fffffff, 0xffffffff}
		seen := map[uint32]bool{}
		for fl := range c02Flagsets {
			for _, seq := range seqs {
				if seen[seq] && fl == 0 {
					continue
				}
				seen[seq] = true
				jobs = append(jobs, &c02Job{w: w, flags: fl, seq: seq, ver: 2, maxlen: maxlen})
			}
			jobs = append(jobs, &c02Job{w: w, flags: fl, seq: low, ver: 1, maxlen: maxlen})
		}
	}
	var wg sync.WaitGroup
	sem := make(chan struct{}, 16)
	for _, j := range jobs {
		wg.Add(1)
		sem <- struct{}{}
		go func(j *c02Job) {
			defer wg.Done()
			defer func() { <-sem }()
			j.acc, j.err = c02Run(j.w, j.seq, j.ver, c02Flagsets[j.flags], stacks)
		}(j)
	}
	wg.Wait()
	seenKey := map[string]bool{}
	for _, j := range jobs {
		if j.err != nil {
			return j.err
		}
		csv := csvOf[j.w]
		key := fmt.Sprintf("enginecsv|%d|%d|%d|%d", csv, j.flags, j.seq, j.ver)
		if seenKey[key] {
			continue
		}
		seenKey[key] = true
		var accs []string
		var accNames [][]string
		for _, a := range j.acc {
			xs := make([]string, len(a))
			ns := make([]string, len(a))
			for i, t := range a {
				xs[i] = fmt.Sprintf("%d", t)
				ns[i] = c02TagNames[t]
			}
			accs = append(accs, "["+strings.Join(xs, ";")+"]%N")
			accNames = append(accNames, ns)
		}
		term := fmt.Sprintf("CEngineCsv %d%%Z %d%%N %d%%Z %s %d %s", csv, j.flags, j.seq, CoqZ(int64(j.ver)), j.maxlen, CoqList(accs))
		cf.Add(term, key, true, fmt.Sprintf("enginecsv:accepted%d", len(j.acc)),
			map[string]interface{}{"family": "enginecsv", "fn": "GetOpeningTxScript+txscript.Engine.Execute", "csv": csv,
				"flags": map[int]string{0: "standard", 1: "consensus"}[j.flags], "sequence": j.seq, "tx_version": j.ver,
				"max_witness_items": j.maxlen, "witness_script": hex.EncodeToString(j.w.redeem), "accepted_witness_stacks": accNames})
	}
	return nil
}

func runC02(args []string) error {
	fs := flag.NewFlagSet("c02", flag.ExitOnError)
	out := fs.String("out", "/verif/work/C02", "output dir")
	seed := fs.Uint64("seed", 1, "seed")
	n := fs.Int("n", 300, "cases in the script family")
	maxlen := fs.Int("maxlen", 4, "maximum number of witness items (below the script)")
	thorough := fs.Bool("thorough", false, "all chain/flag/hash/key/sequence/version combinations")
	fs.Parse(args)
	r := NewRng(*seed)
	imports := "From PS Require Import Base.ScriptOps Model.ScriptInterp Model.OpeningScript Model.C02Corr."
	fams := []*CaseFile{}
	for i := 0; i < 4; i++ {
		fams = append(fams, NewCaseFile(imports, "c02_case", "c02_check", "c02_monitor"))
	}
	c02ScriptFamily(fams[0], r, *n)
	if err := c02ChainFamily(fams[1], r, 24); err != nil {
		return err
	}
	if err := c02EngineFamily(fams[2], r, *thorough, *maxlen); err != nil {
		return err
	}
	if err := c02EngineCsvFamily(fams[3], r, *thorough); err != nil {
		return err
	}
	// interleave the families so that the expensive engine cases spread evenly over the shards
	cf := NewCaseFile(imports, "c02_case", "c02_check", "c02_monitor")
	total := 0
	for _, f := range fams {
		total += len(f.Cases)
	}
	idx := make([]int, len(fams))
	for k := 0; k < total; k++ {
		// pick the family that is furthest behind its proportional share
		best, bestv := -1, 2.0
		for i, f := range fams {
			if idx[i] >= len(f.Cases) {
				continue
			}
			v := float64(idx[i]) / float64(len(f.Cases))
			if v < bestv {
				best, bestv = i, v
			}
		}
		f := fams[best]
		i := idx[best]
		idx[best]++
		kind := ""
		cf.Cases = append(cf.Cases, f.Cases[i])
		cf.Keys = append(cf.Keys, f.Keys[i])
		cf.NonTriv = append(cf.NonTriv, f.NonTriv[i])
		cf.JSONCase = append(cf.JSONCase, f.JSONCase[i])
		_ = kind
	}
	for _, f := range fams {
		for k, v := range f.Kinds {
			cf.Kinds[k] += v
		}
		for _, sm := range f.Samples {
			if len(cf.Samples) < 12 {
				cf.Samples = append(cf.Samples, sm)
			}
		}
	}
	shard := (total + 15) / 16
	if shard > 60 {
		shard = 60
	}
	if shard < 1 {
		shard = 1
	}
	return cf.Write(*out, shard, map[string]interface{}{"seed": *seed, "maxlen": *maxlen})
}
