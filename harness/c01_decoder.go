package main

// C01 / C12, decoder side: the REAL DecodePayreq of both Lightning back-ends (clightning.ClightningClient over a fake
// lightningd socket, lnd.Client over a fake lnrpc client) must hand the swap exactly what the node decoded: the
// payment hash, the amount in MILLIsatoshi (also when it is not a whole number of satoshi) and the final CLTV delta.
// The taker compares these numbers with the negotiated amount before it pays.

import (
	"flag"
	"fmt"
	"os"
	"strings"

	"github.com/elementsproject/peerswap/clightning"
	pslnd "github.com/elementsproject/peerswap/lnd"
	"github.com/lightningnetwork/lnd/lnrpc"
)

func init() {
	register("decoder", "DecodePayreq of the CLN and LND adapters against what the (fake) node decoded", runDecoder)
}

func runDecoder(args []string) error {
	fs := flag.NewFlagSet("decoder", flag.ExitOnError)
	out := fs.String("out", "/verif/work/C01/decoder", "output dir")
	seed := fs.Uint64("seed", 1, "seed")
	n := fs.Int("n", 200, "cases per back-end")
	fs.Parse(args)
	r := NewRng(*seed)
	if err := os.MkdirAll(*out, 0o755); err != nil {
		return err
	}
	cf := NewCaseFile("From PS Require Import Model.C01Decoder.", "dec_case", "dec_check", "dec_monitor")
	fake, err := startFakeCln(*out)
	if err != nil {
		return err
	}
	defer fake.ln.Close()
	cl, err := clightning.VerifNewClientOnSocket(*out, "lightning-rpc")
	if err != nil {
		return err
	}
	defer cl.VerifShutdown()
	genAmount := func() uint64 {
		sat := uint64(r.Range(1, 5000000))
		switch r.Intn(6) {
		case 0:
			return sat * 1000
		case 1:
			return sat*1000 + 1
		case 2:
			return sat*1000 + 999
		case 3:
			return sat*1000 - 1
		case 4:
			return uint64(r.Range(0, 999))
		}
		return sat*1000 + uint64(r.Intn(1000))
	}
	for i := 0; i < 2**n; i++ {
		backend := i % 2
		hash := randHex(r, 32)
		msat := genAmount()
		cltv := int64(PickI(r, []int64{0, 1, 18, 29, 30, 40, 144, 503, 504, 505, 1008, int64(r.Range(0, 3000))}))
		var gh string
		var gm uint64
		var gc int64
		var gerr error
		if backend == 0 {
			mode := 0
			if r.Chance(25) {
				mode = 1 // lightningd without `decode`: decodepay
			}
			inv := map[string]interface{}{"payee": "02" + strings.Repeat("11", 32), "amount_msat": msat, "payment_hash": hash,
				"payment_secret": "s", "currency": "bcrt", "min_final_cltv_expiry": uint64(cltv)}
			fake.mu.Lock()
			fake.decodeMode, fake.invoice = mode, inv
			fake.mu.Unlock()
			gh, gm, gc, gerr = cl.DecodePayreq("lnbcrt1decoder")
		} else {
			fl := &fakeLnd{decoded: &lnrpc.PayReq{PaymentHash: hash, NumSatoshis: int64(msat / 1000), NumMsat: int64(msat), CltvExpiry: cltv,
				Destination: "02" + strings.Repeat("22", 32)}}
			c := pslnd.VerifNewClient(fl, nil)
			gh, gm, gc, gerr = c.DecodePayreq("lnbcrt1decoder")
		}
		obs := "None"
		if gerr == nil {
			obs = fmt.Sprintf("(Some (%s, %s, %s))", CoqStr(gh), CoqZu(gm), CoqZ(gc))
		}
		term := fmt.Sprintf("mkDec %d%%N %s %s %s %s", backend, CoqStr(hash), CoqZu(msat), CoqZ(cltv), obs)
		be := []string{"cln", "lnd"}[backend]
		cf.Add(term, fmt.Sprintf("%s|%s|%d|%d", be, hash, msat, cltv), true, fmt.Sprintf("decoder:%s:sub-sat=%v", be, msat%1000 != 0),
			map[string]interface{}{"family": "decoder", "backend": be, "node_decoded": map[string]interface{}{"payment_hash": hash, "amount_msat": msat, "min_final_cltv_expiry": cltv},
				"returned": map[string]interface{}{"payment_hash": gh, "amount_msat": gm, "final_cltv": gc, "error": gerr != nil}})
	}
	return cf.Write(*out, 200, map[string]interface{}{"seed": *seed})
}
