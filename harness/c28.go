package main

// C28 — peer-sync keeps an accurate, persistent view of peers.
// Runs the REAL peersync store (bbolt temp file), message handler, poller and
// compatibility query on generated operation sequences; the only fakes are the
// lightning node (ListPeers / SendCustomMessage) and the wall clock, which is
// advanced by ageing every stored timestamp through a verif hook.

import (
	"context"
	"encoding/json"
	"errors"
	"flag"
	"fmt"
	"io"
	"log"
	"math/big"
	"os"
	"path/filepath"
	"sort"
	"strings"
	"time"

	"github.com/elementsproject/peerswap/messages"
	"github.com/elementsproject/peerswap/peersync"
	"github.com/elementsproject/peerswap/policy"
	"github.com/elementsproject/peerswap/swap"
)

func c28NewPS(dir string) (*peersync.PeerSync, *peersync.Store, error) {
	st, err := peersync.NewStore(filepath.Join(dir, "probe.db"))
	if err != nil {
		return nil, nil, err
	}
	id, _ := peersync.NewPeerID("02" + strings.Repeat("f", 64))
	return peersync.NewPeerSync(id, st, &c28LN{}, nil, nil, nil), st, nil
}

func init() {
	registerDump("ConstsPeerSync.v", func() (string, error) {
		dir, err := os.MkdirTemp("", "c28dump")
		if err != nil {
			return "", err
		}
		defer os.RemoveAll(dir)
		ps, st, err := c28NewPS(dir)
		if err != nil {
			return "", err
		}
		defer st.Close()
		c := peersync.VerifC28Consts(ps)
		var b strings.Builder
		b.WriteString("From Coq Require Import ZArith String.\nOpen Scope Z_scope.\n")
		names := []string{}
		for k := range c {
			names = append(names, k)
		}
		sort.Strings(names)
		for _, k := range names {
			fmt.Fprintf(&b, "Definition ps_%s : Z := %d.\n", k, c[k])
		}
		fmt.Fprintf(&b, "Definition ps_protocol_version : Z := %d.\n", uint64(swap.PEERSWAP_PROTOCOL_VERSION))
		fmt.Fprintf(&b, "Definition ps_msgtype_poll : Z := %d.\n", int64(messages.MESSAGETYPE_POLL))
		fmt.Fprintf(&b, "Definition ps_msgtype_request_poll : Z := %d.\n", int64(messages.MESSAGETYPE_REQUEST_POLL))
		fmt.Fprintf(&b, "Definition ps_max_premium_ppm : Z := %d.\n", int64(peersync.MaxPremiumRatePPM))
		fmt.Fprintf(&b, "Definition ps_min_premium_ppm : Z := (%d).\n", int64(peersync.MinPremiumRatePPM))
		fmt.Fprintf(&b, "Definition ps_ticker_btc : string := %s.\n", CoqStr(peersync.AssetBTC.String()))
		fmt.Fprintf(&b, "Definition ps_ticker_lbtc : string := %s.\n", CoqStr(peersync.AssetLBTC.String()))
		a, _, u, e := peersync.VerifC28StatusStrings()
		fmt.Fprintf(&b, "Definition ps_status_active : string := %s.\n", CoqStr(a))
		fmt.Fprintf(&b, "Definition ps_status_unknown : string := %s.\n", CoqStr(u))
		fmt.Fprintf(&b, "Definition ps_status_expired : string := %s.\n", CoqStr(e))
		return b.String(), nil
	})
	register("c28", "peersync store/handler/poller/compat operation sequences", runC28)
}

// ---------- fake lightning node

type c28Sent struct {
	To string
	Ty int64
	Ok bool
}

type c28LN struct {
	connected []string
	listFail  bool
	sendFail  map[string]bool
	sent      []c28Sent
}

func (l *c28LN) SendCustomMessage(_ context.Context, to peersync.PeerID, t messages.MessageType, _ []byte) error {
	ok := !l.sendFail[to.String()]
	l.sent = append(l.sent, c28Sent{to.String(), int64(t), ok})
	if !ok {
		return errors.New("send failed")
	}
	return nil
}
func (l *c28LN) SubscribeCustomMessages(context.Context) (<-chan peersync.CustomMessage, error) {
	return nil, errors.New("not used")
}
func (l *c28LN) Stop() error { return nil }
func (l *c28LN) ListPeers(context.Context) ([]peersync.PeerID, error) {
	if l.listFail {
		return nil, errors.New("listpeers failed")
	}
	out := []peersync.PeerID{}
	for _, c := range l.connected {
		id, err := peersync.NewPeerID(c)
		if err != nil {
			return nil, err
		}
		out = append(out, id)
	}
	return out, nil
}

// ---------- operations

type c28Snap struct {
	Version uint64
	Assets  []string
	Allowed bool
	R       [4]int64
}

type c28Op struct {
	Kind    string                `json:"kind"`
	Peer    string                `json:"peer,omitempty"`
	Ty      int64                 `json:"type,omitempty"`
	Payload string                `json:"payload,omitempty"`
	Flag    bool                  `json:"flag,omitempty"`
	D       int64                 `json:"d,omitempty"` // seconds (advance) or ns (direct cleanup timeout)
	Keep    []string              `json:"keep,omitempty"`
	Rec     *peersync.VerifC28Rec `json:"rec,omitempty"`
	// filled at execution: virtual time of the op = VSec seconds + Idx milliseconds
	VSec   int64                  `json:"vsec"`
	Idx    int64                  `json:"idx"`
	Parsed *c28Snap               `json:"parsed,omitempty"`
	Sent   []c28Sent              `json:"sent,omitempty"`
	Result int64                  `json:"result"`
	Store  []peersync.VerifC28Rec `json:"store"`
}

const c28Sec = int64(time.Second)

var c28Peers = []string{
	"02" + strings.Repeat("a", 62) + "01",
	"02" + strings.Repeat("a", 62) + "02",
	"03" + strings.Repeat("b", 62) + "03",
	"03" + strings.Repeat("b", 62) + "04",
	"pX",
}

func c28PeerName(s string) (string, bool) {
	for i, p := range c28Peers {
		if p == s {
			return fmt.Sprintf("P%d", i), true
		}
	}
	return "", false
}

func c28Str(s string) string {
	if n, ok := c28PeerName(s); ok {
		return n
	}
	return CoqStr(s)
}

func c28StrList(xs []string) string {
	ys := make([]string, len(xs))
	for i, x := range xs {
		ys[i] = c28Str(x)
	}
	return CoqList(ys)
}

func genC28Payload(r *Rng, local uint64) string {
	k := r.Intn(100)
	switch {
	case k < 4:
		return PickS(r, []string{"{", "[]", "{\"version\":-1}", "{\"version\":18446744073709551616}", "{\"version\":\"3\"}", "", "{\"assets\":\"btc\"}", "{\"btc_swap_in_premium_rate_ppm\":1.5}"})
	case k < 8:
		return PickS(r, []string{"{}", "null", "{\"unknown_field\":1}", "{\"assets\":[]}", "{\"peer_allowed\":false}"})
	}
	m := map[string]interface{}{}
	m["version"] = PickU(r, []uint64{local, local, local, local - 1, local - 1, local + 1, local + 1, 0, 1, 1<<64 - 1, 1 << 63, uint64(r.Range(0, 8))})
	assets := [][]string{{"btc", "lbtc"}, {"BTC"}, {}, {" lbtc\t"}, {"LBTC", "BTC", "btc"}, {"Lbtc"}, {"btc", "lbtc"}}
	m["assets"] = assets[r.Intn(len(assets))]
	m["peer_allowed"] = r.Bool()
	rates := []int64{0, 0, 1, -1, 1000000, -1000000, 999999, -999999, r.Range(-5000, 5000)}
	names := []string{"btc_swap_in_premium_rate_ppm", "btc_swap_out_premium_rate_ppm", "lbtc_swap_in_premium_rate_ppm", "lbtc_swap_out_premium_rate_ppm"}
	for _, n := range names {
		m[n] = PickI(r, rates)
	}
	if k < 15 {
		m["assets"] = [][]string{{"xyz"}, {"BT C"}, {""}, {"btc", "usdt"}, {"L-BTC"}}[r.Intn(5)]
	} else if k < 22 {
		m[names[r.Intn(4)]] = PickI(r, []int64{1000001, -1000001, 1<<63 - 1, -1 << 63, 2000000})
	}
	b, _ := json.Marshal(m)
	return string(b)
}

func genC28Rec(r *Rng, local uint64) *peersync.VerifC28Rec {
	rec := &peersync.VerifC28Rec{Key: c28Peers[r.Intn(4)]}
	if r.Bool() {
		rec.ID = rec.Key
	}
	rec.Address = PickS(r, []string{"", "", "127.0.0.1:9735"})
	rec.Status = PickS(r, []string{"", "active", "unknown", "expired", "inactive", "weird"})
	ages := []int64{0, 1, 9, 10, 11, 899, 900, 901, 1799, 1800, 1801, 3600}
	if r.Chance(70) {
		rec.HasLastPoll = true
		rec.LastPollAge = time.Duration(PickI(r, ages) * c28Sec)
	}
	if r.Chance(75) {
		rec.HasLastSeen = true
		rec.LastSeenAge = time.Duration(PickI(r, ages) * c28Sec)
	}
	switch r.Intn(8) {
	case 0: // no capability data at all
	case 1:
		rec.Version = local
		rec.Assets = []string{"xyz"}
	case 2:
		rec.Version = local
		rec.BTCOut = 1000001
	case 3:
		rec.Assets = []string{"btc"} // legacy lower case, nothing else
	default:
		rec.Version = PickU(r, []uint64{local, local, local - 1, local + 1, 0, 1<<64 - 1})
		rec.Assets = [][]string{{"BTC", "LBTC"}, {"LBTC"}, nil}[r.Intn(3)]
		rec.PeerAllowed = r.Bool()
		rec.BTCIn = PickI(r, []int64{0, 100, -100, 1000000})
		rec.LBTCOut = PickI(r, []int64{0, 7, -1000000})
	}
	return rec
}

func c28ValidPayload(v uint64, r *Rng) string {
	m := map[string]interface{}{"version": v, "assets": []string{"btc", "lbtc"}, "peer_allowed": r.Bool(),
		"btc_swap_in_premium_rate_ppm": r.Range(-3, 3), "lbtc_swap_out_premium_rate_ppm": r.Range(-3, 3)}
	b, _ := json.Marshal(m)
	return string(b)
}

func genC28RandomOp(r *Rng, local uint64, big *int) c28Op {
	k := r.Intn(100)
	// peers 0..2 are used most of the time so that histories revisit the same peer
	p := c28Peers[r.Intn(3)]
	if r.Chance(25) {
		p = c28Peers[r.Intn(len(c28Peers))]
	}
	switch {
	case k < 30:
		ty := int64(messages.MESSAGETYPE_POLL)
		if r.Bool() {
			ty = int64(messages.MESSAGETYPE_REQUEST_POLL)
		}
		if r.Chance(7) {
			ty = PickI(r, []int64{int64(messages.MESSAGETYPE_SWAPINREQUEST), 0, int64(messages.MESSAGETYPE_COOPCLOSE)})
		}
		return c28Op{Kind: "msg", Peer: p, Ty: ty, Payload: genC28Payload(r, local)}
	case k < 46:
		return c28Op{Kind: "poll", Flag: r.Chance(30)}
	case k < 58:
		return c28Op{Kind: "cleanup"}
	case k < 62:
		keep := []string{}
		for _, q := range c28Peers {
			if r.Chance(30) {
				keep = append(keep, q)
			}
		}
		return c28Op{Kind: "cleanup_direct", D: PickI(r, []int64{0, -c28Sec, 1, c28Sec, 10 * c28Sec, 1800 * c28Sec, 1801 * c28Sec, 3600 * c28Sec, -1 << 63, 1<<63 - 1}), Keep: keep}
	case k < 72:
		return c28Op{Kind: "connect", Peer: p, Flag: r.Chance(65)}
	case k < 85:
		d := PickI(r, []int64{1, 9, 10, 11, 60, 300, 589, 590, 599, 600, 601, 890, 899, 900, 901, 1799, 1800, 1801, 3600, 86400})
		if r.Chance(4) && *big < 2 {
			d = 200 * 365 * 86400
			*big++
		}
		return c28Op{Kind: "advance", D: d}
	case k < 88:
		return c28Op{Kind: "suspicious", Peer: p, Flag: r.Chance(60)}
	case k < 90:
		return c28Op{Kind: "sendfail", Peer: p, Flag: r.Chance(60)}
	case k < 91:
		return c28Op{Kind: "listfail", Flag: r.Chance(60)}
	case k < 93:
		return c28Op{Kind: "reload"}
	case k < 97:
		id := p
		if r.Chance(25) {
			id = PickS(r, []string{"", strings.Repeat("k", 128), strings.Repeat("k", 129), "nobody"})
		}
		return c28Op{Kind: "compat", Peer: id}
	case k < 99:
		return c28Op{Kind: "putraw", Rec: genC28Rec(r, local)}
	}
	return c28Op{Kind: "remove", Peer: p}
}

// scenario skeletons aimed at the clauses of the property; random operations are interleaved
func genC28Scenario(r *Rng, local uint64) []c28Op {
	a, b := c28Peers[r.Intn(2)], c28Peers[2+r.Intn(2)]
	poll := int64(messages.MESSAGETYPE_POLL)
	req := int64(messages.MESSAGETYPE_REQUEST_POLL)
	pick := func() int64 {
		if r.Bool() {
			return poll
		}
		return req
	}
	around := func(t int64) int64 { return t + r.Range(-1, 1) }
	switch r.Intn(9) {
	case 8: // ages beyond the int64 Duration range (time.Since saturates)
		return []c28Op{
			{Kind: "msg", Peer: a, Ty: pick(), Payload: c28ValidPayload(local, r)},
			{Kind: "poll"},
			{Kind: "connect", Peer: b, Flag: true},
			{Kind: "poll"},
			{Kind: "advance", D: 200 * 365 * 86400},
			{Kind: "poll"},
			{Kind: "connect", Peer: a, Flag: r.Bool()},
			{Kind: "advance", D: 200 * 365 * 86400},
			{Kind: "poll"},
			{Kind: "cleanup"},
		}
	case 0, 4: // expiry: one peer connected, one not, sweep around the timeout
		return []c28Op{
			{Kind: "msg", Peer: a, Ty: pick(), Payload: c28ValidPayload(local, r)},
			{Kind: "msg", Peer: b, Ty: pick(), Payload: c28ValidPayload(local, r)},
			{Kind: "connect", Peer: a, Flag: true},
			{Kind: "advance", D: around(1800)},
			{Kind: "cleanup"},
			{Kind: "connect", Peer: a, Flag: r.Chance(30)},
			{Kind: "advance", D: PickI(r, []int64{1, 2, 600})},
			{Kind: "cleanup"},
			{Kind: "compat", Peer: a},
		}
	case 1, 5: // request interval for an unknown connected peer
		return []c28Op{
			{Kind: "connect", Peer: a, Flag: true},
			{Kind: "poll", Flag: r.Chance(20)},
			{Kind: "advance", D: around(PickI(r, []int64{300, 600, 600}))},
			{Kind: "poll", Flag: r.Chance(15)},
			{Kind: "advance", D: PickI(r, []int64{1, 298, 299, 300, 301, 600})},
			{Kind: "poll"},
			{Kind: "connect", Peer: a, Flag: false},
			{Kind: "poll"},
			{Kind: "connect", Peer: a, Flag: true},
			{Kind: "poll"},
		}
	case 3, 7: // request interval for an unknown connected peer whose sends fail
		return []c28Op{
			{Kind: "connect", Peer: a, Flag: true},
			{Kind: "sendfail", Peer: a, Flag: true},
			{Kind: "poll"},
			{Kind: "advance", D: PickI(r, []int64{1, 5, 299})},
			{Kind: "poll"},
			{Kind: "poll"},
			{Kind: "sendfail", Peer: a, Flag: r.Chance(50)},
			{Kind: "advance", D: PickI(r, []int64{1, 300, 301, 600})},
			{Kind: "poll"},
			{Kind: "poll", Flag: r.Chance(30)},
		}
	case 2, 6: // version ladder from one peer, with a restart
		vs := []uint64{local, local - 1, local + 1, local, 0, local + 1}
		ops := []c28Op{}
		for i := 0; i < 3+r.Intn(3); i++ {
			ops = append(ops, c28Op{Kind: "msg", Peer: a, Ty: pick(), Payload: c28ValidPayload(vs[r.Intn(len(vs))], r)})
			if r.Chance(30) {
				ops = append(ops, c28Op{Kind: "compat", Peer: a})
			}
		}
		ops = append(ops, c28Op{Kind: "reload"}, c28Op{Kind: "compat", Peer: a})
		return ops
	}
	// cadence of polls to a known peer: plain poll, then request poll once stale
	return []c28Op{
		{Kind: "msg", Peer: a, Ty: pick(), Payload: c28ValidPayload(local, r)},
		{Kind: "poll"},
		{Kind: "advance", D: around(10)},
		{Kind: "poll"},
		{Kind: "advance", D: around(890)},
		{Kind: "poll"},
		{Kind: "advance", D: around(900)},
		{Kind: "poll", Flag: r.Chance(20)},
		{Kind: "cleanup"},
	}
}

func genC28Ops(r *Rng, local uint64) []c28Op {
	ops := []c28Op{}
	big := 0
	if r.Chance(55) {
		for _, o := range genC28Scenario(r, local) {
			for r.Chance(25) {
				ops = append(ops, genC28RandomOp(r, local, &big))
			}
			ops = append(ops, o)
		}
	} else {
		n := int(r.Range(5, 18))
		for len(ops) < n {
			ops = append(ops, genC28RandomOp(r, local, &big))
		}
	}
	// every case ends with a reload so that persistence is always observed
	ops = append(ops, c28Op{Kind: "reload"})
	return ops
}

func c28Toggle(l []string, p string, on bool) []string {
	out := []string{}
	for _, x := range l {
		if x != p {
			out = append(out, x)
		}
	}
	if on {
		out = append(out, p)
	}
	return out
}

// execC28 runs the ops on a fresh real store; returns elapsed wall time.
func execC28(dir string, ops []c28Op) (time.Duration, error) {
	os.RemoveAll(dir)
	if err := os.MkdirAll(dir, 0o755); err != nil {
		return 0, err
	}
	defer os.RemoveAll(dir)
	path := filepath.Join(dir, "peers.db")
	ctx := context.Background()
	ln := &c28LN{sendFail: map[string]bool{}}
	pol := &policy.Policy{AcceptAllPeers: true, AllowNewSwaps: true}
	nodeID, _ := peersync.NewPeerID("02" + strings.Repeat("f", 64))
	open := func() (*peersync.Store, *peersync.PeerSync, error) {
		st, err := peersync.NewStore(path)
		if err != nil {
			return nil, nil, err
		}
		peersync.VerifC28NoSync(st)
		return st, peersync.NewPeerSync(nodeID, st, ln, pol, nil, nil), nil
	}
	st, ps, err := open()
	if err != nil {
		return 0, err
	}
	defer func() { st.Close() }()
	t0 := time.Now()
	vsec := int64(0)
	idx := int64(0)
	for i := range ops {
		op := &ops[i]
		op.Sent, op.Parsed, op.Store, op.Result = nil, nil, nil, 0
		ln.sent = nil
		if op.Kind == "advance" {
			if err := peersync.VerifC28Age(ps, time.Duration(op.D*c28Sec)); err != nil {
				return 0, err
			}
			vsec += op.D
			continue
		}
		idx++
		op.VSec, op.Idx = vsec, idx
		switch op.Kind {
		case "msg":
			from, err := peersync.NewPeerID(op.Peer)
			if err != nil {
				return 0, err
			}
			var sn peersync.PeerCapabilitySnapshot
			if json.Unmarshal([]byte(op.Payload), &sn) == nil {
				op.Parsed = &c28Snap{sn.Version, sn.Assets, sn.PeerAllowed, [4]int64{sn.BTCSwapInPremiumRatePPM, sn.BTCSwapOutPremiumRatePPM, sn.LBTCSwapInPremiumRatePPM, sn.LBTCSwapOutPremiumRatePPM}}
			}
			peersync.VerifC28ProcessMessage(ctx, ps, peersync.CustomMessage{From: from, Type: messages.MessageType(op.Ty), Payload: []byte(op.Payload)})
		case "poll":
			if op.Flag {
				ps.ForcePollAllPeers(ctx)
			} else {
				ps.PollAllPeers(ctx)
			}
		case "cleanup":
			if err := peersync.VerifC28Cleanup(ctx, ps); err != nil {
				op.Result = 1
			}
		case "cleanup_direct":
			var keep map[peersync.PeerID]struct{}
			if op.Keep != nil {
				keep = map[peersync.PeerID]struct{}{}
				for _, k := range op.Keep {
					id, _ := peersync.NewPeerID(k)
					keep[id] = struct{}{}
				}
			}
			n, err := st.CleanupExpiredExcept(time.Duration(op.D), keep)
			op.Result = int64(n)
			if err != nil {
				op.Result = -1
			}
		case "connect":
			ln.connected = c28Toggle(ln.connected, op.Peer, op.Flag)
		case "suspicious":
			pol.SuspiciousPeerList = c28Toggle(pol.SuspiciousPeerList, op.Peer, op.Flag)
		case "sendfail":
			ln.sendFail[op.Peer] = op.Flag
		case "listfail":
			ln.listFail = op.Flag
		case "reload":
			if err := st.Close(); err != nil {
				return 0, err
			}
			st, ps, err = open()
			if err != nil {
				return 0, err
			}
		case "compat":
			if ps.HasCompatiblePeer(op.Peer) {
				op.Result = 1
			}
		case "putraw":
			if err := peersync.VerifC28PutRaw(st, *op.Rec); err != nil {
				return 0, err
			}
		case "remove":
			id, _ := peersync.NewPeerID(op.Peer)
			if err := st.RemovePeerState(id); err != nil {
				return 0, err
			}
		default:
			return 0, fmt.Errorf("unknown op %s", op.Kind)
		}
		op.Sent = append([]c28Sent(nil), ln.sent...)
		sort.SliceStable(op.Sent, func(a, b int) bool {
			if op.Sent[a].To != op.Sent[b].To {
				return op.Sent[a].To < op.Sent[b].To
			}
			return op.Sent[a].Ty < op.Sent[b].Ty
		})
		d, err := peersync.VerifC28Dump(st)
		if err != nil {
			return 0, err
		}
		op.Store = d
	}
	return time.Since(t0), nil
}

// ---------- rendering

// virtual clock reading of the operation in ns (two century advances exceed int64)
func (op *c28Op) now() *big.Int {
	n := new(big.Int).Mul(big.NewInt(op.VSec), big.NewInt(c28Sec))
	return n.Add(n, big.NewInt(op.Idx*1000000))
}

func c28OptAge(has bool, secs int64) string {
	if !has {
		return "None"
	}
	return "(Some " + CoqZ(secs) + ")"
}

func c28SnapTerm(v uint64, assets []string, allowed bool, r [4]int64) string {
	return fmt.Sprintf("(Snap %s %s %s %s %s %s %s)", CoqZu(v), CoqStrList(assets), CoqBool(allowed), CoqZ(r[0]), CoqZ(r[1]), CoqZ(r[2]), CoqZ(r[3]))
}

func c28OpTerm(op *c28Op) string {
	switch op.Kind {
	case "msg":
		pl := "None"
		if op.Parsed != nil {
			pl = "(Some " + c28SnapTerm(op.Parsed.Version, op.Parsed.Assets, op.Parsed.Allowed, op.Parsed.R) + ")"
		}
		return fmt.Sprintf("OMsg %s %s %s", c28Str(op.Peer), CoqZ(op.Ty), pl)
	case "poll":
		return "OPoll " + CoqBool(op.Flag)
	case "cleanup":
		return "OCleanup"
	case "cleanup_direct":
		return fmt.Sprintf("OCleanupDirect %s %s", CoqZ(op.D), c28StrList(op.Keep))
	case "connect":
		return fmt.Sprintf("OConnect %s %s", c28Str(op.Peer), CoqBool(op.Flag))
	case "suspicious":
		return fmt.Sprintf("OSusp %s %s", c28Str(op.Peer), CoqBool(op.Flag))
	case "sendfail":
		return fmt.Sprintf("OSendFail %s %s", c28Str(op.Peer), CoqBool(op.Flag))
	case "listfail":
		return "OListFail " + CoqBool(op.Flag)
	case "reload":
		return "OReload"
	case "compat":
		return "OCompat " + c28Str(op.Peer)
	case "putraw":
		r := op.Rec
		st := func(has bool, age time.Duration) string {
			if !has {
				return "None"
			}
			return "(Some " + CoqZbig(new(big.Int).Sub(op.now(), big.NewInt(int64(age)))) + ")"
		}
		return fmt.Sprintf("OPutRaw %s (Rec %s %s %s %s %s)", c28Str(r.Key), CoqStr(r.Address), CoqStr(r.Status),
			st(r.HasLastPoll, r.LastPollAge), st(r.HasLastSeen, r.LastSeenAge),
			c28SnapTerm(r.Version, r.Assets, r.PeerAllowed, [4]int64{r.BTCIn, r.BTCOut, r.LBTCIn, r.LBTCOut}))
	case "remove":
		return "ORemove " + c28Str(op.Peer)
	}
	return "OBAD"
}

func c28StepTerm(op *c28Op) string {
	sent := make([]string, len(op.Sent))
	for i, s := range op.Sent {
		sent[i] = CoqTuple(c28Str(s.To), CoqZ(s.Ty), CoqBool(s.Ok))
	}
	recs := make([]string, len(op.Store))
	for i, r := range op.Store {
		recs[i] = fmt.Sprintf("ORec %s %s %s %s %s %s %s", c28Str(r.Key), CoqBool(r.BadJSON), CoqStr(r.Address), CoqStr(r.Status),
			c28OptAge(r.HasLastPoll, r.LastPollAgeSec), c28OptAge(r.HasLastSeen, r.LastSeenAgeSec),
			c28SnapTerm(r.Version, r.Assets, r.PeerAllowed, [4]int64{r.BTCIn, r.BTCOut, r.LBTCIn, r.LBTCOut}))
	}
	return fmt.Sprintf("Step %s (%s) %s %s %s", CoqZbig(op.now()), c28OpTerm(op), CoqList(sent), CoqZ(op.Result), CoqList(recs))
}

// classification of the branch an op took, from the observed data only (histogram)
func c28Classify(ops []c28Op, local uint64, timeoutNs, reqIntervalNs int64, kinds map[string]int) {
	var before []peersync.VerifC28Rec
	conn := map[string]bool{}
	susp := map[string]bool{}
	find := func(l []peersync.VerifC28Rec, k string) *peersync.VerifC28Rec {
		for i := range l {
			if l[i].Key == k {
				return &l[i]
			}
		}
		return nil
	}
	readable := func(r *peersync.VerifC28Rec) bool {
		sn := peersync.PeerCapabilitySnapshot{Version: r.Version, Assets: r.Assets, PeerAllowed: r.PeerAllowed, BTCSwapInPremiumRatePPM: r.BTCIn,
			BTCSwapOutPremiumRatePPM: r.BTCOut, LBTCSwapInPremiumRatePPM: r.LBTCIn, LBTCSwapOutPremiumRatePPM: r.LBTCOut}
		_, err := sn.ToCapability()
		return err == nil && !r.BadJSON
	}
	for i := range ops {
		op := &ops[i]
		if op.Kind == "advance" {
			if op.D > 100*365*86400 {
				kinds["advance:centuries"]++
			} else {
				kinds["advance"]++
			}
			continue
		}
		k := op.Kind
		switch op.Kind {
		case "msg":
			prev := find(before, op.Peer)
			switch {
			case op.Ty != int64(messages.MESSAGETYPE_POLL) && op.Ty != int64(messages.MESSAGETYPE_REQUEST_POLL):
				k = "msg:other-type"
			default:
				if op.Ty == int64(messages.MESSAGETYPE_POLL) {
					k = "msg:poll"
				} else {
					k = "msg:reqpoll"
				}
				valid := false
				if op.Parsed != nil {
					sn := peersync.PeerCapabilitySnapshot{Version: op.Parsed.Version, Assets: op.Parsed.Assets, PeerAllowed: op.Parsed.Allowed,
						BTCSwapInPremiumRatePPM: op.Parsed.R[0], BTCSwapOutPremiumRatePPM: op.Parsed.R[1], LBTCSwapInPremiumRatePPM: op.Parsed.R[2], LBTCSwapOutPremiumRatePPM: op.Parsed.R[3]}
					_, err := sn.ToCapability()
					valid = err == nil
				}
				switch {
				case susp[op.Peer]:
					k += ":suspicious"
				case op.Parsed == nil:
					k += ":bad-json"
				case !valid:
					k += ":invalid-capability"
				case prev == nil:
					k += ":new-peer"
				case !readable(prev):
					k += ":existing-unreadable"
				case prev.Version > op.Parsed.Version:
					k += ":kept-higher-version"
				case prev.Version == 0 && len(prev.Assets) == 0 && !prev.PeerAllowed && prev.BTCIn == 0 && prev.BTCOut == 0 && prev.LBTCIn == 0 && prev.LBTCOut == 0:
					k += ":existing-without-capability"
				default:
					k += ":replaced"
				}
				if len(op.Sent) > 0 {
					if op.Sent[0].Ok {
						k += "+answered"
					} else {
						k += "+answer-failed"
					}
				}
			}
		case "poll":
			if op.Flag {
				k = "poll:forced"
			} else {
				k = "poll:cadence"
			}
			unreadable := false
			for j := range before {
				if !readable(&before[j]) {
					unreadable = true
				}
			}
			if unreadable {
				k += ":aborted-unreadable-record"
			}
			sentTo := map[string]bool{}
			for _, s := range op.Sent {
				sentTo[s.To] = true
				known := find(before, s.To) != nil
				sk := "send:"
				if s.Ty == int64(messages.MESSAGETYPE_POLL) {
					sk += "poll"
				} else if known {
					sk += "reqpoll-stale-known"
				} else {
					sk += "reqpoll-unknown"
				}
				if !s.Ok {
					sk += ":failed"
				}
				kinds[sk]++
			}
			if !unreadable {
				for c := range conn {
					if conn[c] && find(before, c) == nil && !sentTo[c] {
						if susp[c] {
							kinds["send:unknown-suspicious-skipped"]++
						} else {
							kinds["send:unknown-throttled"]++
						}
					}
				}
				for j := range before {
					if !sentTo[before[j].Key] {
						kinds["send:known-skipped"]++
					}
				}
			}
		case "cleanup", "cleanup_direct":
			if (op.Kind == "cleanup" && op.Result == 1) || op.Result < 0 {
				k += ":error"
			} else {
				removed := 0
				for j := range before {
					if find(op.Store, before[j].Key) == nil {
						removed++
					} else if op.Kind == "cleanup" && before[j].HasLastSeen && int64(before[j].LastSeenAge) > timeoutNs && conn[before[j].Key] {
						kinds["cleanup:expired-but-connected-kept"]++
					}
				}
				if removed > 0 {
					k += ":removed"
					if removed > 1 {
						kinds["cleanup:removed-several"]++
					}
				} else {
					k += ":nothing"
				}
			}
		case "connect":
			conn[op.Peer] = op.Flag
		case "suspicious":
			susp[op.Peer] = op.Flag
		case "compat":
			k = fmt.Sprintf("compat:%d", op.Result)
			if _, err := peersync.NewPeerID(op.Peer); err != nil {
				k += ":invalid-id"
			} else if find(before, op.Peer) == nil {
				k += ":unknown"
			}
		case "putraw":
			if readable(op.Rec) {
				k = "putraw:readable"
			} else {
				k = "putraw:unreadable"
			}
		}
		kinds[k]++
		before = op.Store
	}
	_ = local
	_ = reqIntervalNs
}

func runC28(args []string) error {
	fs := flag.NewFlagSet("c28", flag.ExitOnError)
	out := fs.String("out", "/verif/work/C28", "output dir")
	seed := fs.Uint64("seed", 1, "seed")
	n := fs.Int("n", 300, "operation sequences")
	fs.Parse(args)
	log.SetOutput(io.Discard)
	r := NewRng(*seed)
	if err := os.MkdirAll(*out, 0o755); err != nil {
		return err
	}
	ps, st, err := c28NewPS(*out)
	if err != nil {
		return err
	}
	consts := peersync.VerifC28Consts(ps)
	st.Close()
	os.Remove(filepath.Join(*out, "probe.db"))
	local := uint64(consts["local_version"])

	var defs strings.Builder
	defs.WriteString("From PS Require Import Model.PeerSync Model.C28Corr.\n")
	for i, p := range c28Peers {
		fmt.Fprintf(&defs, "Definition P%d : String.string := %s.\n", i, CoqStr(p))
	}
	cf := NewCaseFile(defs.String(), "c28_case", "c28_check", "c28_monitor")
	slow := 0
	for i := 0; i < *n; i++ {
		ops := genC28Ops(r, local)
		var el time.Duration
		for try := 0; ; try++ {
			el, err = execC28(filepath.Join(*out, "db"), ops)
			if err != nil {
				return fmt.Errorf("case %d: %w", i, err)
			}
			if el < 600*time.Millisecond {
				break
			}
			slow++
			if try >= 8 {
				return fmt.Errorf("case %d: real time per case stays above 600ms (%v); the whole-second clock discipline cannot be kept", i, el)
			}
		}
		steps := []string{}
		var kept []c28Op
		for j := range ops {
			if ops[j].Kind != "advance" {
				steps = append(steps, c28StepTerm(&ops[j]))
			}
			kept = append(kept, ops[j])
		}
		c28Classify(ops, local, consts["cleanup_timeout"], consts["request_poll_interval"], cf.Kinds)
		js, _ := json.Marshal(kept)
		cf.Add(CoqList(steps), string(js[:0])+fmt.Sprintf("%x", hashBytes(js)), true, "sequences", map[string]interface{}{"fn": "peersync-sequence", "ops": kept})
	}
	return cf.Write(*out, 80, map[string]interface{}{"seed": *seed, "slow_retries": slow})
}

func hashBytes(b []byte) uint64 {
	h := uint64(1469598103934665603)
	for _, c := range b {
		h ^= uint64(c)
		h *= 1099511628211
	}
	return h
}
