package main

// C20 — chain watchers: the REAL BlockchainRpcTxWatcher (txwatcher) is driven over a
// scripted fake bitcoind/elementsd RPC, and the REAL lwk electrumTxWatcher (with the real
// electrum observers and block-header subscriber) over a scripted fake electrum RPC.
// Every case records what the fakes answered (the "view"), the ground truth of the
// simulated chain, and the callbacks the watcher issued, step by step.

import (
	"sync/atomic"
	"context"
	"crypto/sha256"
	"errors"
	"flag"
	"fmt"
	"runtime"
	"sort"
	"strconv"
	"strings"
	"sync"
	"time"

	goelectrum "github.com/checksum0/go-electrum/electrum"
	pslog "github.com/elementsproject/peerswap/log"
	"github.com/elementsproject/peerswap/lwk"
	"github.com/elementsproject/peerswap/onchain"
	"github.com/elementsproject/peerswap/swap"
	"github.com/elementsproject/peerswap/txwatcher"
)

func init() {
	registerDump("ConstsWatcher.v", func() (string, error) {
		var b strings.Builder
		b.WriteString("From Coq Require Import ZArith.\nOpen Scope Z_scope.\n")
		fmt.Fprintf(&b, "Definition bitcoin_min_confs : Z := %d.\n", int64(onchain.BitcoinMinConfs))
		fmt.Fprintf(&b, "Definition liquid_confs : Z := %d.\n", int64(onchain.LiquidConfs))
		fmt.Fprintf(&b, "Definition bitcoin_csv : Z := %d.\n", int64(onchain.BitcoinCsv))
		fmt.Fprintf(&b, "Definition liquid_csv : Z := %d.\n", int64(onchain.LiquidCsv))
		return b.String(), nil
	})
	register("c20", "chain watcher (RPC + electrum) correspondence cases", runC20)
}

// ---------------------------------------------------------------- fake bitcoind RPC

type rpcView struct {
	HeightErr bool             `json:"height_err,omitempty"`
	Height    uint64           `json:"height"`
	HashErr   bool             `json:"hash_err,omitempty"`
	Hashes    map[uint32]int64 `json:"hashes"`
	TxoKind   int              `json:"txo"` // 0 error, 1 null, 2 some
	Best      int64            `json:"best,omitempty"`
	Conf      uint32           `json:"conf,omitempty"`
	RawErr    bool             `json:"raw_err,omitempty"`
	Raws      map[int64]int64  `json:"raws"` // block id -> raw token (0 = "")
}

func (v *rpcView) coq() string {
	h := "None"
	if !v.HeightErr {
		h = "(Some " + CoqZu(v.Height) + ")"
	}
	hs := []string{}
	if !v.HashErr {
		keys := []int64{}
		for k := range v.Hashes {
			keys = append(keys, int64(k))
		}
		sort.Slice(keys, func(i, j int) bool { return keys[i] < keys[j] })
		for _, k := range keys {
			hs = append(hs, CoqPair(CoqZ(k), CoqZ(v.Hashes[uint32(k)])))
		}
	}
	rs := []string{}
	if !v.RawErr {
		keys := []int64{}
		for k := range v.Raws {
			keys = append(keys, k)
		}
		sort.Slice(keys, func(i, j int) bool { return keys[i] < keys[j] })
		for _, k := range keys {
			rs = append(rs, CoqPair(CoqZ(k), "RawStr "+CoqZ(v.Raws[k])))
		}
	}
	return fmt.Sprintf("(mkView %s %s %s %s)", h, CoqList(hs), coqTxo(v.TxoKind, v.Best, v.Conf), CoqList(rs))
}

func coqTxo(kind int, best int64, conf uint32) string {
	switch kind {
	case 0:
		return "TxoErr"
	case 1:
		return "TxoNil"
	}
	return fmt.Sprintf("(TxoSome %s %s)", CoqZ(best), CoqZ(int64(conf)))
}

type fakeChainRpc struct {
	mu        sync.Mutex
	v         *rpcView
	kickArmed bool
	kickErr   bool
	kick      uint64
	calls     int
}

var errFakeRpc = errors.New("fake rpc: transient failure")

func (f *fakeChainRpc) GetBlockHeight() (uint64, error) {
	f.mu.Lock()
	defer f.mu.Unlock()
	f.calls++
	if f.kickArmed {
		f.kickArmed = false
		if f.kickErr {
			return 0, errFakeRpc
		}
		return f.kick, nil
	}
	if f.v.HeightErr {
		return 0, errFakeRpc
	}
	return f.v.Height, nil
}

func (f *fakeChainRpc) GetTxOut(txid string, vout uint32) (*txwatcher.TxOutResp, error) {
	f.mu.Lock()
	defer f.mu.Unlock()
	f.calls++
	switch f.v.TxoKind {
	case 0:
		return nil, errFakeRpc
	case 1:
		return nil, nil
	}
	return &txwatcher.TxOutResp{BestBlockHash: "h" + strconv.FormatInt(f.v.Best, 10), Confirmations: f.v.Conf, Value: 1}, nil
}

func (f *fakeChainRpc) GetBlockHash(height uint32) (string, error) {
	f.mu.Lock()
	defer f.mu.Unlock()
	f.calls++
	if f.v.HashErr {
		return "", errFakeRpc
	}
	id, ok := f.v.Hashes[height]
	if !ok {
		return "", errors.New("Block height out of range")
	}
	return "h" + strconv.FormatInt(id, 10), nil
}

func (f *fakeChainRpc) GetRawtransactionWithBlockHash(txId string, blockHash string) (string, error) {
	f.mu.Lock()
	defer f.mu.Unlock()
	f.calls++
	if f.v.RawErr || !strings.HasPrefix(blockHash, "h") {
		return "", errFakeRpc
	}
	id, err := strconv.ParseInt(blockHash[1:], 10, 64)
	if err != nil {
		return "", errFakeRpc
	}
	tok, ok := f.v.Raws[id]
	if !ok {
		return "", errors.New("No such transaction found in the provided block")
	}
	if tok == 0 {
		return "", nil
	}
	return "r" + strconv.FormatInt(tok, 10), nil
}

func rawToken(s string) int64 {
	if s == "" {
		return 0
	}
	if strings.HasPrefix(s, "r") {
		if v, err := strconv.ParseInt(s[1:], 10, 64); err == nil {
			return v
		}
	}
	return -1
}

// ---------------------------------------------------------------- simulated chain

type simBlock struct {
	ID    int64
	HasTx bool
}
type simState struct {
	Base    int64
	Blocks  []simBlock
	Mempool bool
	Spent   bool
}

func (s *simState) height() int64 { return s.Base + int64(len(s.Blocks)) - 1 }
func (s *simState) txHeight() (int64, bool) {
	for i, b := range s.Blocks {
		if b.HasTx {
			return s.Base + int64(i), true
		}
	}
	return 0, false
}
func (s *simState) clone() *simState {
	c := *s
	c.Blocks = append([]simBlock(nil), s.Blocks...)
	return &c
}

type rpcStep struct {
	Notified uint32   `json:"notified"`
	View     *rpcView `json:"view"`
	HasTruth bool     `json:"has_truth"`
	THeight  int64    `json:"truth_height,omitempty"`
	TTx      int64    `json:"truth_tx,omitempty"`
	TTxIn    bool     `json:"truth_tx_in_chain,omitempty"`
	Tag      string   `json:"tag,omitempty"`
}

func (s *rpcStep) coq() string {
	t := "None"
	if s.HasTruth {
		tx := "None"
		if s.TTxIn {
			tx = "(Some " + CoqZ(s.TTx) + ")"
		}
		t = fmt.Sprintf("(Some (mkTruth %s %s))", CoqZ(s.THeight), tx)
	}
	return fmt.Sprintf("(%s, %s, %s)", CoqZ(int64(s.Notified)), s.View.coq(), t)
}

type rpcConfCase struct {
	Fn      string     `json:"fn"`
	Req     uint32     `json:"required_confs"`
	Start   uint32     `json:"starting_height"`
	Limit   uint32     `json:"payment_window"`
	KickErr bool       `json:"kick_err,omitempty"`
	Kick    uint64     `json:"kick_height"`
	Steps   []*rpcStep `json:"steps"`
	Obs     [][]string `json:"observed_callbacks"`
	Running bool       `json:"loop_running_after"`
	Feature string     `json:"feature"`
}

type cbEvent struct {
	raw string
	err error
}

// runRpcConf drives the real watcher through the scripted steps.
func runRpcConf(c *rpcConfCase) error {
	f := &fakeChainRpc{v: c.Steps[0].View, kickArmed: true, kickErr: c.KickErr, kick: c.Kick}
	w := txwatcher.NewBlockchainRpcTxWatcher(context.Background(), f, c.Req)
	var mu sync.Mutex
	var evs []cbEvent
	w.AddConfirmationCallback(func(swapId, txHex string, err error) error {
		mu.Lock()
		evs = append(evs, cbEvent{txHex, err})
		mu.Unlock()
		return nil
	})
	take := func() []string {
		mu.Lock()
		defer mu.Unlock()
		out := []string{}
		for _, e := range evs {
			if e.err != nil {
				out = append(out, "err")
			} else {
				out = append(out, "ok:"+strconv.FormatInt(rawToken(e.raw), 10))
			}
		}
		evs = nil
		return out
	}
	// barrier: the loop accepts a notification only when it is back in its select; height 0 is
	// never above lastHeight, so it is a no-op for the loop.
	barrier := func() (bool, error) {
		deadline := time.Now().Add(20 * time.Second)
		for {
			ch, ok := w.VerifObserverChan("swap")
			if !ok {
				return false, nil
			}
			select {
			case ch <- 0:
				return true, nil
			default:
			}
			if time.Now().After(deadline) {
				return false, errors.New("observation loop neither returned nor accepted a notification")
			}
			runtime.Gosched()
			time.Sleep(20 * time.Microsecond)
		}
	}
	send := func(h uint32) (bool, error) {
		deadline := time.Now().Add(20 * time.Second)
		for {
			ch, ok := w.VerifObserverChan("swap")
			if !ok {
				return false, nil
			}
			select {
			case ch <- h:
				return true, nil
			default:
			}
			if time.Now().After(deadline) {
				return false, errors.New("observation loop does not accept notifications")
			}
			runtime.Gosched()
			time.Sleep(20 * time.Microsecond)
		}
	}
	// step 0: the real registration (kick-off with GetBlockHeight)
	w.AddWaitForConfirmationTx("swap", "txid", 0, c.Start, c.Limit, nil)
	running, err := barrier()
	if err != nil {
		return err
	}
	c.Obs = append(c.Obs, take())
	for i := 1; i < len(c.Steps) && running; i++ {
		f.mu.Lock()
		f.v = c.Steps[i].View
		f.mu.Unlock()
		ok, err := send(c.Steps[i].Notified)
		if err != nil {
			return err
		}
		if !ok {
			running = false
			break
		}
		running, err = barrier()
		if err != nil {
			return err
		}
		c.Obs = append(c.Obs, take())
	}
	c.Running = running
	return nil
}

func coqObs(obs [][]string) string {
	outer := []string{}
	for _, o := range obs {
		in := []string{}
		for _, e := range o {
			if e == "err" {
				in = append(in, "SCbErr")
			} else {
				in = append(in, "SCbOk "+CoqZ(mustInt(e[3:])))
			}
		}
		outer = append(outer, CoqList(in))
	}
	return CoqList(outer)
}

func mustInt(s string) int64 {
	v, _ := strconv.ParseInt(s, 10, 64)
	return v
}

func (c *rpcConfCase) coq() string {
	steps := []string{}
	for _, s := range c.Steps {
		steps = append(steps, s.coq())
	}
	return fmt.Sprintf("CRpcConf %s %s %s %s %s %s %s", CoqZ(int64(c.Req)), CoqZ(int64(c.Start)), CoqZ(int64(c.Limit)),
		CoqOpt(!c.KickErr, CoqZu(c.Kick)), CoqList(steps), coqObs(c.Obs), CoqBool(c.Running))
}

// viewOf builds the RPC answers of one step from the simulated states.
func viewOf(sH, sHash, q *simState, allRaws map[int64]int64) *rpcView {
	v := &rpcView{Height: uint64(sH.height()), Hashes: map[uint32]int64{}, Raws: allRaws}
	for i, b := range sHash.Blocks {
		v.Hashes[uint32(sHash.Base+int64(i))] = b.ID
	}
	if h, in := q.txHeight(); in && !q.Spent {
		v.TxoKind = 2
		v.Best = q.Blocks[len(q.Blocks)-1].ID
		v.Conf = uint32(q.height() - h + 1)
	} else if q.Mempool && !in {
		v.TxoKind = 2
		v.Best = q.Blocks[len(q.Blocks)-1].ID
		v.Conf = 0
	} else {
		v.TxoKind = 1
	}
	return v
}

func genRpcConfChain(r *Rng) *rpcConfCase {
	c := &rpcConfCase{Fn: "rpc-confirmation"}
	c.Req = uint32(PickI(r, []int64{3, 3, 3, 2, 2, 1, 6}))
	base := PickI(r, []int64{0, 1, 100, 100, 100, 700000, (1 << 32) - 60})
	n0 := int(r.Range(5, 9))
	nextID := int64(1)
	raws := map[int64]int64{}
	emptyForMissing := r.Chance(10)
	newBlock := func(hasTx bool) simBlock {
		b := simBlock{ID: nextID, HasTx: hasTx}
		nextID++
		if hasTx {
			raws[b.ID] = b.ID
		} else if emptyForMissing {
			raws[b.ID] = 0
		}
		return b
	}
	st := &simState{Base: base}
	for i := 0; i < n0; i++ {
		st.Blocks = append(st.Blocks, newBlock(false))
	}
	feat := map[string]bool{}
	// where does the swap start relative to the tip, and how long is the window
	c.Start = uint32(st.height() - r.Range(0, 3))
	if st.height()-3 < 0 {
		c.Start = uint32(st.height())
	}
	c.Limit = uint32(PickI(r, []int64{2, 3, 4, 5, 6, 8, 12, 30, 504}))
	// the tx may already be confirmed (possibly before the start height), in the mempool, or unseen
	switch r.Intn(6) {
	case 0:
		k := r.Intn(len(st.Blocks))
		st.Blocks[k].HasTx = true
		raws[st.Blocks[k].ID] = st.Blocks[k].ID
		feat["preconfirmed"] = true
	case 1, 2:
		st.Mempool = true
	}
	states := []*simState{st}
	nsteps := int(r.Range(1, 12))
	snapshot := func() map[int64]int64 {
		m := map[int64]int64{}
		for k, v := range raws {
			m[k] = v
		}
		return m
	}
	lastNotified := int64(-1)
	for i := 0; i < nsteps; i++ {
		prev := states[len(states)-1]
		cur := prev.clone()
		if i > 0 {
			// chain event
			ev := r.Intn(100)
			switch {
			case ev < 55: // mine 1..3 blocks
				k := int(r.Range(1, 3))
				for j := 0; j < k; j++ {
					_, in := cur.txHeight()
					inc := !in && cur.Mempool && r.Chance(60)
					if !in && !cur.Mempool && r.Chance(15) {
						inc = true // seen first in a block
					}
					cur.Blocks = append(cur.Blocks, newBlock(inc))
					if inc {
						cur.Mempool = false
					}
				}
			case ev < 70: // reorg
				d := int(r.Range(1, 3))
				if d >= len(cur.Blocks) {
					d = len(cur.Blocks) - 1
				}
				m := d + int(r.Range(0, 2))
				if r.Chance(12) && d > 1 {
					m = d - 1
					feat["shrink"] = true
				}
				had := false
				for _, b := range cur.Blocks[len(cur.Blocks)-d:] {
					had = had || b.HasTx
				}
				cur.Blocks = cur.Blocks[:len(cur.Blocks)-d]
				if had {
					cur.Mempool = true
				}
				for j := 0; j < m; j++ {
					_, in := cur.txHeight()
					inc := !in && cur.Mempool && r.Chance(40)
					cur.Blocks = append(cur.Blocks, newBlock(inc))
					if inc {
						cur.Mempool = false
					}
				}
				feat["reorg"] = true
			case ev < 80: // tx enters the mempool
				if _, in := cur.txHeight(); !in {
					cur.Mempool = true
				}
			case ev < 86: // output gets spent / unspent
				cur.Spent = !cur.Spent
				feat["spent"] = true
			default: // nothing happens
			}
			states = append(states, cur)
		}
		q := states[len(states)-1]
		sHash, sH := q, q
		if len(states) > 1 && r.Chance(12) {
			sH = states[len(states)-2]
			if r.Chance(50) {
				sHash = sH
			}
			feat["stale"] = true
		}
		v := viewOf(sH, sHash, q, snapshot())
		if r.Chance(2) {
			v.Height += 1 << 32 // uint64 answer above 2^32: the code truncates
			feat["u64"] = true
		}
		switch r.Intn(40) {
		case 0:
			v.HeightErr = true
			feat["rpcerr"] = true
		case 1:
			v.HashErr = true
			feat["rpcerr"] = true
		case 2:
			v.TxoKind = 0
			feat["rpcerr"] = true
		case 3:
			v.RawErr = true
			feat["rpcerr"] = true
		}
		lag := int64(0)
		switch x := r.Intn(100); {
		case x < 55:
		case x < 70:
			lag = 1
		case x < 82:
			lag = 2
		case x < 88:
			lag = 3
		case x < 93:
			lag = -int64(r.Range(1, 2))
		default:
			lag = q.height() - lastNotified // repeat the previous notification
		}
		n := q.height() - lag
		if n < 0 {
			n = 0
		}
		if n > (1<<32)-1 {
			n = (1 << 32) - 1
		}
		if lag >= 2 {
			feat["lag2"] = true
		}
		if lag < 0 {
			feat["ahead"] = true
		}
		s := &rpcStep{Notified: uint32(n), View: v, HasTruth: true, THeight: q.height()}
		if h, in := q.txHeight(); in {
			s.TTx, s.TTxIn = h, true
		}
		if i == 0 {
			// the first notification is the watcher's own GetBlockHeight at registration
			c.Kick = uint64(n)
			if r.Chance(3) {
				c.KickErr = true
			}
			if c.KickErr {
				s.Notified = 0
			}
		}
		lastNotified = int64(s.Notified)
		c.Steps = append(c.Steps, s)
	}
	fs := []string{}
	for k := range feat {
		fs = append(fs, k)
	}
	sort.Strings(fs)
	c.Feature = strings.Join(fs, "+")
	return c
}

var u32Boundary = []int64{0, 1, 2, 3, 100, 1 << 31, (1 << 31) + 1, (1 << 32) - 3, (1 << 32) - 2, (1 << 32) - 1}

// synthetic views around the uint32 boundaries (no chain truth attached)
func genRpcConfSynth(r *Rng) *rpcConfCase {
	c := &rpcConfCase{Fn: "rpc-confirmation", Feature: "synthetic"}
	c.Req = uint32(PickI(r, []int64{0, 1, 2, 3, 6, (1 << 32) - 1}))
	c.Start = uint32(PickI(r, u32Boundary))
	c.Limit = uint32(PickI(r, []int64{0, 1, 2, 30, 504, 1 << 31, (1 << 32) - 1, (1 << 32) - 100}))
	if r.Chance(50) {
		c.Start = uint32(r.Range(90, 110))
		c.Limit = uint32(r.Range(0, 30))
	}
	n := int(r.Range(1, 3))
	for i := 0; i < n; i++ {
		H := uint64(PickI(r, u32Boundary))
		if r.Chance(50) {
			H = uint64(r.Range(95, 125))
		}
		kind := int(PickI(r, []int64{0, 1, 2, 2, 2, 2}))
		if kind == 1 {
			// range scan from the start height: keep it short
			h := int64(c.Start) + r.Range(-3, 12)
			if h < 0 {
				h = 0
			}
			H = uint64(h)
		}
		if H >= (1<<32)-1 {
			H = (1 << 32) - 2 // IsTxInRange never terminates for end = 2^32-1
		}
		v := &rpcView{Height: H, Hashes: map[uint32]int64{}, Raws: map[int64]int64{}}
		if r.Chance(5) {
			v.Height += uint64(r.Range(1, 3)) << 32
		}
		v.Hashes[uint32(H)] = 7
		v.TxoKind = kind
		v.Best = PickI(r, []int64{7, 7, 7, 7, 8})
		v.Conf = uint32(PickI(r, []int64{0, 1, 1, 2, 2, 3, 3, 4, 6, 100, int64(uint32(H)) + 1, int64(uint32(H)) + 2, 1 << 31, (1 << 32) - 1}))
		first := uint32(H) + 1 - v.Conf
		if v.Conf >= 2 && r.Chance(85) {
			v.Hashes[first] = 9
		}
		switch r.Intn(6) {
		case 0:
		case 1:
			v.Raws[7], v.Raws[9] = 0, 0
		default:
			v.Raws[7], v.Raws[9] = 70, 90
		}
		if v.TxoKind == 1 {
			for h := int64(c.Start); h <= int64(uint32(H)); h++ {
				if !r.Chance(4) {
					v.Hashes[uint32(h)] = 20 + (h % 7)
				}
			}
			v.Hashes[uint32(H)] = 7
			if r.Chance(60) {
				v.Raws[20+r.Range(0, 6)] = 55
			}
		}
		notified := int64(uint32(H)) - PickI(r, []int64{0, 0, 0, 1, 2, 3, -1, -2})
		if r.Chance(15) {
			notified = PickI(r, u32Boundary)
		}
		if notified < 0 {
			notified = 0
		}
		if notified > (1<<32)-1 {
			notified = (1 << 32) - 1
		}
		s := &rpcStep{Notified: uint32(notified), View: v}
		if i == 0 {
			c.Kick = uint64(notified)
			if r.Chance(5) {
				c.Kick += 1 << 32
			}
			if r.Chance(5) {
				c.KickErr = true
				s.Notified = 0
			}
		}
		c.Steps = append(c.Steps, s)
	}
	return c
}

// regression corpus: the shapes that matter most, always run
func corpusRpcConf() []*rpcConfCase {
	mk := func(req, start, limit uint32, H uint64, notified uint32, conf uint32, feature string) *rpcConfCase {
		v := &rpcView{Height: H, Hashes: map[uint32]int64{}, Raws: map[int64]int64{}}
		for h := int64(H) - 8; h <= int64(H); h++ {
			if h >= 0 {
				v.Hashes[uint32(h)] = 1000 + h
			}
		}
		v.TxoKind, v.Best, v.Conf = 2, 1000+int64(H), conf
		txh := int64(H) + 1 - int64(conf)
		v.Raws[1000+txh] = 1000 + txh
		if txh >= 0 {
			v.Hashes[uint32(txh)] = 1000 + txh
		}
		s := &rpcStep{Notified: notified, View: v, HasTruth: true, THeight: int64(H), TTx: txh, TTxIn: true}
		return &rpcConfCase{Fn: "rpc-confirmation", Req: req, Start: start, Limit: limit, Kick: uint64(notified),
			Steps: []*rpcStep{s}, Feature: feature}
	}
	return []*rpcConfCase{
		mk(3, 100, 504, 102, 100, 1, "corpus:lag2-newest-block"), // D19: 100-(102-1) wraps
		mk(2, 100, 30, 103, 100, 1, "corpus:lag3-newest-block"),
		mk(3, 100, 504, 102, 102, 3, "corpus:exact-depth"),
		mk(3, 100, 504, 102, 102, 2, "corpus:one-short"),
		mk(3, 100, 504, 102, 101, 3, "corpus:lag1-depth3"),
		mk(3, 100, 4, 104, 104, 3, "corpus:window-edge-closed"),
		mk(3, 100, 4, 103, 103, 3, "corpus:window-edge-open"),
		mk(3, 100, 504, 110, 110, 60, "corpus:confirmed-before-start"),
		mk(3, 100, 504, 103, 105, 1, "corpus:notified-above-node-height"), // finding C20/2
	}
}

func rpcConfKind(c *rpcConfCase) string {
	out := "silent"
	for _, o := range c.Obs {
		for _, e := range o {
			if e == "err" {
				out = "failure"
			} else {
				out = "confirmed"
			}
		}
	}
	return "rpcconf:" + out
}

// per step tag: which branch of the watcher the step exercised (derived from answers + outcome)
func rpcStepTag(c *rpcConfCase, i int, last *uint32) string {
	s := c.Steps[i]
	n := s.Notified
	if n <= *last {
		return "dup-height"
	}
	*last = n
	if n >= c.Start+c.Limit {
		return "window-closed"
	}
	v := s.View
	o := "silent"
	if i < len(c.Obs) && len(c.Obs[i]) > 0 {
		o = c.Obs[i][0]
		if strings.HasPrefix(o, "ok") {
			o = "ok"
		}
	}
	switch {
	case v.HeightErr:
		return "height-err/" + o
	case v.HashErr:
		return "hash-err/" + o
	case v.TxoKind == 0:
		return "txout-err/" + o
	case v.TxoKind == 1:
		return "range-scan/" + o
	}
	bh, okh := v.Hashes[uint32(v.Height)]
	if !okh {
		return "txout-tip-hash-missing/" + o
	}
	if bh != v.Best {
		return "txout-out-of-sync/" + o
	}
	first := uint32(v.Height)
	if v.Conf >= 2 {
		first = uint32(v.Height) + 1 - v.Conf
	}
	switch {
	case v.Conf == 0:
		return "txout-conf0/" + o
	case v.Conf >= 1 && first > c.Start+c.Limit && o == "err":
		return "txout-first-seen-after-deadline/" + o
	case v.Conf >= 1 && first > n && o == "silent":
		return "txout-first-seen-above-notified/" + o
	case v.Conf == 1:
		return "txout-conf1/" + o
	}
	return "txout-confN/" + o
}

// ---------------------------------------------------------------- RPC csv

type csvOp struct {
	Txo     int    `json:"txo"`
	Conf    uint32 `json:"conf"`
	CbFails bool   `json:"cb_fails"`
	Truth   uint32 `json:"true_confirmations"`
}
type rpcCsvCase struct {
	Fn  string   `json:"fn"`
	Csv uint32   `json:"csv"`
	Ops []*csvOp `json:"ops"`
	Obs [][2]int `json:"observed"` // callbacks, still watched
}

func genRpcCsv(r *Rng) *rpcCsvCase {
	c := &rpcCsvCase{Fn: "rpc-csv"}
	c.Csv = uint32(PickI(r, []int64{int64(onchain.BitcoinCsv), int64(onchain.LiquidCsv), 60, 60, 5, 3, 1, 0, (1 << 32) - 1}))
	conf := int64(c.Csv) - r.Range(0, 6)
	if r.Chance(15) {
		conf = int64(c.Csv) + r.Range(0, 3)
	}
	if conf < 0 {
		conf = 0
	}
	n := int(r.Range(1, 10))
	for i := 0; i < n; i++ {
		if conf > (1<<32)-1 {
			conf = (1 << 32) - 1
		}
		op := &csvOp{Txo: 2, Conf: uint32(conf), Truth: uint32(conf), CbFails: r.Chance(20)}
		switch r.Intn(12) {
		case 0:
			op.Txo = 0
		case 1:
			op.Txo = 1
		}
		c.Ops = append(c.Ops, op)
		switch x := r.Intn(10); {
		case x < 6:
			conf++
		case x < 7:
			conf += 2
		case x < 8:
			conf -= r.Range(1, 3) // reorg
			if conf < 0 {
				conf = 0
			}
		}
	}
	return c
}

func runRpcCsv(c *rpcCsvCase) error {
	f := &fakeChainRpc{v: &rpcView{}}
	w := txwatcher.NewBlockchainRpcTxWatcher(context.Background(), f, 3)
	var ncb int32
	var fails int32
	w.AddCsvCallback(func(swapId string) error {
		atomic.AddInt32(&ncb, 1)
		if atomic.LoadInt32(&fails) == 1 {
			return errors.New("swap service refused")
		}
		return nil
	})
	for i, op := range c.Ops {
		f.mu.Lock()
		f.v = &rpcView{TxoKind: op.Txo, Best: 1, Conf: op.Conf}
		f.mu.Unlock()
		atomic.StoreInt32(&fails, 0)
		if op.CbFails {
			atomic.StoreInt32(&fails, 1)
		}
		atomic.StoreInt32(&ncb, 0)
		if i == 0 {
			w.AddWaitForCsvTx("swap", "txid", 0, 100, c.Csv, nil)
			// the callback of an already matured transaction runs in its own goroutine: wait for it (and for the
			// removal from the watch list that follows a successful callback) before observing
			if op.Txo == 2 && op.Conf >= c.Csv {
				deadline := time.Now().Add(10 * time.Second)
				for time.Now().Before(deadline) {
					if atomic.LoadInt32(&ncb) >= 1 && (op.CbFails || !w.VerifCsvWatched("swap")) {
						break
					}
					time.Sleep(time.Millisecond)
				}
			}
			time.Sleep(2 * time.Millisecond)
		} else {
			if err := w.HandleCsvTx(uint64(100 + i)); err != nil {
				return err
			}
		}
		watched := 0
		if w.VerifCsvWatched("swap") {
			watched = 1
		}
		c.Obs = append(c.Obs, [2]int{int(atomic.LoadInt32(&ncb)), watched})
	}
	return nil
}

func (c *rpcCsvCase) coq() string {
	ops := []string{}
	for _, o := range c.Ops {
		ops = append(ops, CoqTuple(coqTxo(o.Txo, 1, o.Conf), CoqBool(o.CbFails), CoqZ(int64(o.Truth))))
	}
	obs := []string{}
	for _, o := range c.Obs {
		obs = append(obs, fmt.Sprintf("(%d%%nat, %s)", o[0], CoqBool(o[1] == 1)))
	}
	return fmt.Sprintf("CRpcCsv %s %s %s", CoqZ(int64(c.Csv)), CoqList(ops), CoqList(obs))
}

// ---------------------------------------------------------------- fake electrum

type eAns struct {
	HistErr bool       `json:"hist_err,omitempty"`
	Hist    [][2]int64 `json:"hist"` // kind (0 nil,1 bad hash,2 other,3 match), height
	RawErr  bool       `json:"raw_err,omitempty"`
	Raw     int64      `json:"raw"`
	Cb      int        `json:"cb"` // 0 nil, 1 ErrSwapDoesNotExist, 2 other error
	TruthH  int64      `json:"true_tx_height"`
}

func (a *eAns) coq() string {
	h := "HistErr"
	if !a.HistErr {
		es := []string{}
		for _, e := range a.Hist {
			switch e[0] {
			case 0:
				es = append(es, "HNil")
			case 1:
				es = append(es, "HBad")
			case 2:
				es = append(es, "HOther "+CoqZ(e[1]))
			default:
				es = append(es, "HMatch "+CoqZ(e[1]))
			}
		}
		h = "(HistList " + CoqList(es) + ")"
	}
	raw := "RawErr"
	if !a.RawErr {
		raw = "(RawStr " + CoqZ(a.Raw) + ")"
	}
	cb := []string{"CbNil", "CbNoSwap", "CbFail"}[a.Cb]
	return fmt.Sprintf("(mkEans %s %s %s, %s)", h, raw, cb, CoqZ(a.TruthH))
}

type eReg struct {
	Open   bool   `json:"opening"`
	Swap   int64  `json:"swap"`
	Start  uint32 `json:"starting_height,omitempty"`
	Window uint32 `json:"payment_window,omitempty"`
	Csv    uint32 `json:"csv,omitempty"`
}

func (g *eReg) coq() string {
	if g.Open {
		return fmt.Sprintf("(RegOpen %s %s %s)", CoqZ(g.Swap), CoqZ(int64(g.Start)), CoqZ(int64(g.Window)))
	}
	return fmt.Sprintf("(RegCsv %s %s)", CoqZ(g.Swap), CoqZ(int64(g.Csv)))
}

type eStep struct {
	Reg     *eReg   `json:"register,omitempty"`
	HdrNil  bool    `json:"header_nil,omitempty"`
	Hdr     int32   `json:"header_height"`
	TTip    int64   `json:"true_tip"`
	Answers []*eAns `json:"answers,omitempty"`
}

func (s *eStep) coq() string {
	if s.Reg != nil {
		return "XRegister " + s.Reg.coq()
	}
	as := []string{}
	for _, a := range s.Answers {
		as = append(as, a.coq())
	}
	return fmt.Sprintf("XHeader %s %s %s", CoqOpt(!s.HdrNil, CoqZ(int64(s.Hdr))), CoqZ(s.TTip), CoqList(as))
}

type eObs struct {
	Events []string `json:"events"`
	Height int64    `json:"get_block_height"` // -1 = error
}
type elecCase struct {
	Fn      string   `json:"fn"`
	Regs    []*eReg  `json:"registrations"`
	Steps   []*eStep `json:"steps"`
	StartOK bool     `json:"start_ok"`
	Obs     []*eObs  `json:"observed"`
	Feature string   `json:"feature"`
}

func hex32(prefix byte, n int64) string {
	b := make([]byte, 32)
	b[0] = prefix
	for i := 0; i < 8; i++ {
		b[31-i] = byte(uint64(n) >> (8 * i))
	}
	return fmt.Sprintf("%x", b)
}
func scriptOf(i int) []byte {
	s := make([]byte, 34)
	s[0], s[1] = 0x00, 0x20
	s[2] = 0xc2
	s[33] = byte(i)
	s[32] = byte(i >> 8)
	return s
}
func scriptHashOf(script []byte) string {
	h := sha256.Sum256(script)
	rev := make([]byte, len(h))
	for i, b := range h {
		rev[len(h)-1-i] = b
	}
	return fmt.Sprintf("%X", rev)
}

type fakeElectrum struct {
	mu       sync.Mutex
	headers  chan *goelectrum.SubscribeHeadersResult
	byScript map[string]int // scripthash -> registration index
	byTxid   map[string]int
	answers  []*eAns
	events   []string
	regs     []*eReg
}

func (f *fakeElectrum) SubscribeHeaders(ctx context.Context) (<-chan *goelectrum.SubscribeHeadersResult, error) {
	return f.headers, nil
}
func (f *fakeElectrum) GetHistory(ctx context.Context, scripthash string) ([]*goelectrum.GetMempoolResult, error) {
	f.mu.Lock()
	defer f.mu.Unlock()
	i, ok := f.byScript[strings.ToUpper(scripthash)]
	if !ok || i >= len(f.answers) {
		return nil, errors.New("fake electrum: unknown scripthash")
	}
	a := f.answers[i]
	if a.HistErr {
		return nil, errFakeRpc
	}
	out := []*goelectrum.GetMempoolResult{}
	for _, e := range a.Hist {
		switch e[0] {
		case 0:
			out = append(out, nil)
		case 1:
			out = append(out, &goelectrum.GetMempoolResult{Hash: "zz-not-a-hash", Height: int32(e[1])})
		case 2:
			out = append(out, &goelectrum.GetMempoolResult{Hash: hex32(0xee, int64(i)), Height: int32(e[1])})
		default:
			out = append(out, &goelectrum.GetMempoolResult{Hash: hex32(0xaa, int64(i)), Height: int32(e[1])})
		}
	}
	return out, nil
}
func (f *fakeElectrum) GetRawTransaction(ctx context.Context, txHash string) (string, error) {
	f.mu.Lock()
	defer f.mu.Unlock()
	i, ok := f.byTxid[txHash]
	if !ok || i >= len(f.answers) {
		return "", errors.New("fake electrum: unknown txid")
	}
	a := f.answers[i]
	if a.RawErr {
		return "", errFakeRpc
	}
	if a.Raw == 0 {
		return "", nil
	}
	return "r" + strconv.FormatInt(a.Raw, 10), nil
}
func (f *fakeElectrum) BroadcastTransaction(ctx context.Context, rawTx string) (string, error) {
	return "", errFakeRpc
}
func (f *fakeElectrum) GetFee(ctx context.Context, target uint32) (float32, error) {
	return 0, errFakeRpc
}
func (f *fakeElectrum) Ping(ctx context.Context) error   { return nil }
func (f *fakeElectrum) Reboot(ctx context.Context) error { return nil }

// cbResult: the swap service's answer for this swap in the current step
func (f *fakeElectrum) cbResult(swapTok int64) error {
	for i, g := range f.regs {
		if g.Swap == swapTok && i < len(f.answers) {
			switch f.answers[i].Cb {
			case 0:
				return nil
			case 1:
				return fmt.Errorf("wrapped: %w", swap.ErrSwapDoesNotExist)
			default:
				return errors.New("swap service refused")
			}
		}
	}
	return errors.New("unknown swap")
}

func swapTokOf(id string) int64 {
	if len(id) != 64 {
		return -1
	}
	v, err := strconv.ParseUint(id[48:], 16, 64)
	if err != nil {
		return -1
	}
	return int64(v)
}

type electrumWatcher interface {
	StartWatchingTxs() error
	AddWaitForConfirmationTx(swapIDStr, txIDStr string, vout, startingHeight, paymentWindow uint32, scriptpubkeyByte []byte)
	AddWaitForCsvTx(swapIDStr, txIDStr string, vout, startingHeight, csv uint32, scriptpubkeyByte []byte)
	GetBlockHeight() (uint32, error)
}

func runElec(c *elecCase) error {
	f := &fakeElectrum{headers: make(chan *goelectrum.SubscribeHeadersResult), byScript: map[string]int{}, byTxid: map[string]int{}}
	defer close(f.headers)
	wr, err := lwk.NewElectrumTxWatcher(f)
	if err != nil {
		return err
	}
	var w electrumWatcher = wr
	wr.AddConfirmationCallback(func(swapId, txHex string, err error) error {
		f.mu.Lock()
		defer f.mu.Unlock()
		tok := swapTokOf(swapId)
		if err != nil {
			f.events = append(f.events, fmt.Sprintf("conferr:%d", tok))
		} else {
			f.events = append(f.events, fmt.Sprintf("confok:%d:%d", tok, rawToken(txHex)))
		}
		return f.cbResult(tok)
	})
	wr.AddCsvCallback(func(swapId string) error {
		f.mu.Lock()
		defer f.mu.Unlock()
		tok := swapTokOf(swapId)
		f.events = append(f.events, fmt.Sprintf("csv:%d", tok))
		return f.cbResult(tok)
	})
	register := func(g *eReg) {
		f.mu.Lock()
		i := len(f.regs)
		f.regs = append(f.regs, g)
		f.byScript[scriptHashOf(scriptOf(i))] = i
		f.byTxid[hex32(0xaa, int64(i))] = i
		f.mu.Unlock()
		if g.Open {
			w.AddWaitForConfirmationTx(hex32(0x55, g.Swap), hex32(0xaa, int64(i)), 0, g.Start, g.Window, scriptOf(i))
		} else {
			w.AddWaitForCsvTx(hex32(0x55, g.Swap), hex32(0xaa, int64(i)), 0, 0, g.Csv, scriptOf(i))
		}
	}
	observe := func() {
		f.mu.Lock()
		evs := f.events
		f.events = nil
		f.mu.Unlock()
		if evs == nil {
			evs = []string{}
		}
		h, err := w.GetBlockHeight()
		o := &eObs{Events: evs, Height: int64(h)}
		if err != nil {
			o.Height = -1
		}
		c.Obs = append(c.Obs, o)
	}
	hdrOf := func(s *eStep) *goelectrum.SubscribeHeadersResult {
		if s.HdrNil {
			return nil
		}
		return &goelectrum.SubscribeHeadersResult{Height: s.Hdr}
	}
	for _, g := range c.Regs {
		register(g)
	}
	// first header: handled synchronously by StartWatchingTxs
	s0 := c.Steps[0]
	f.mu.Lock()
	f.answers = s0.Answers
	f.mu.Unlock()
	errc := make(chan error, 1)
	go func() { errc <- w.StartWatchingTxs() }()
	select {
	case f.headers <- hdrOf(s0):
	case <-time.After(20 * time.Second):
		return errors.New("StartWatchingTxs does not read the first header")
	}
	select {
	case err = <-errc:
	case <-time.After(20 * time.Second):
		return errors.New("StartWatchingTxs does not return")
	}
	c.StartOK = err == nil
	if !c.StartOK {
		return nil
	}
	observe()
	running := true
	stopped := func() bool {
		_, err := w.GetBlockHeight()
		return err != nil && strings.Contains(err.Error(), "stopped")
	}
	// deliver h to the header goroutine; false when the goroutine has stopped
	deliver := func(h *goelectrum.SubscribeHeadersResult) (bool, error) {
		deadline := time.Now().Add(20 * time.Second)
		for {
			select {
			case f.headers <- h:
				return true, nil
			default:
			}
			if stopped() {
				return false, nil
			}
			if time.Now().After(deadline) {
				return false, errors.New("header goroutine neither stopped nor reads headers")
			}
			runtime.Gosched()
			time.Sleep(20 * time.Microsecond)
		}
	}
	for _, s := range c.Steps[1:] {
		if s.Reg != nil {
			register(s.Reg)
			observe()
			continue
		}
		if running {
			f.mu.Lock()
			f.answers = s.Answers
			f.mu.Unlock()
			ok, err := deliver(hdrOf(s))
			if err != nil {
				return err
			}
			if ok {
				// barrier: a header at height 1 is never above the accepted height
				ok, err = deliver(&goelectrum.SubscribeHeadersResult{Height: 1})
				if err != nil {
					return err
				}
			}
			running = ok
		}
		observe()
	}
	return nil
}

func (c *elecCase) coq() string {
	regs := []string{}
	for _, g := range c.Regs {
		regs = append(regs, g.coq())
	}
	steps := []string{}
	for _, s := range c.Steps {
		steps = append(steps, s.coq())
	}
	obs := []string{}
	for _, o := range c.Obs {
		evs := []string{}
		for _, e := range o.Events {
			p := strings.Split(e, ":")
			switch p[0] {
			case "confok":
				evs = append(evs, fmt.Sprintf("EvConfOk %s %s", CoqZ(mustInt(p[1])), CoqZ(mustInt(p[2]))))
			case "conferr":
				evs = append(evs, "EvConfErr "+CoqZ(mustInt(p[1])))
			default:
				evs = append(evs, "EvCsv "+CoqZ(mustInt(p[1])))
			}
		}
		obs = append(obs, CoqPair(CoqList(evs), CoqOpt(o.Height >= 0, CoqZ(o.Height))))
	}
	return fmt.Sprintf("CElec %s %s %s %s", CoqList(regs), CoqList(steps), CoqBool(c.StartOK), CoqList(obs))
}

func genElec(r *Rng) *elecCase {
	c := &elecCase{Fn: "electrum"}
	feat := map[string]bool{}
	base := PickI(r, []int64{1, 5, 100, 100, 100, 2000000, (1 << 31) - 60})
	tip := base + r.Range(0, 5)
	nreg := int(r.Range(1, 3))
	type regTruth struct{ h int64 }
	truths := []*regTruth{}
	mkReg := func() *eReg {
		g := &eReg{Open: r.Chance(60), Swap: int64(len(truths)) + 1}
		if len(truths) > 0 && r.Chance(12) {
			g.Swap = 1
			feat["same-swap"] = true
		}
		if g.Open {
			g.Start = uint32(tip - r.Range(-2, 3))
			if tip-3 < 0 {
				g.Start = uint32(tip)
			}
			g.Window = uint32(PickI(r, []int64{1, 2, 3, 4, 6, 10, 30}))
			if r.Chance(4) {
				g.Start = uint32(PickI(r, []int64{0, (1 << 32) - 1, 1 << 31}))
			}
		} else {
			g.Csv = uint32(PickI(r, []int64{1, 2, 3, 5, 60, 0, (1 << 32) - 1}))
		}
		t := &regTruth{}
		if r.Chance(25) {
			t.h = tip - r.Range(0, 6)
			if t.h < 1 {
				t.h = 1
			}
		}
		truths = append(truths, t)
		return g
	}
	for i := 0; i < nreg; i++ {
		c.Regs = append(c.Regs, mkReg())
	}
	regsNow := append([]*eReg(nil), c.Regs...)
	prevTruth := func() []int64 {
		o := make([]int64, len(truths))
		for i, t := range truths {
			o[i] = t.h
		}
		return o
	}
	nsteps := int(r.Range(1, 12))
	trueTip := tip
	for si := 0; si < nsteps; si++ {
		if si > 0 && r.Chance(8) {
			g := mkReg()
			regsNow = append(regsNow, g)
			c.Steps = append(c.Steps, &eStep{Reg: g})
			feat["late-register"] = true
			continue
		}
		before := prevTruth()
		if si > 0 {
			trueTip += r.Range(0, 3)
		}
		// the txs get confirmed / reorged
		for _, t := range truths {
			switch x := r.Intn(100); {
			case t.h == 0 && x < 35:
				t.h = trueTip - r.Range(0, 1)
				if t.h < 1 {
					t.h = 1
				}
			case t.h > 0 && x < 6:
				t.h = 0
				feat["reorg"] = true
			}
		}
		s := &eStep{TTip: trueTip}
		hdr := trueTip - PickI(r, []int64{0, 0, 0, 0, 1, 2})
		switch x := r.Intn(100); {
		case x < 3:
			s.HdrNil = true
			feat["nil-header"] = true
		case x < 6:
			hdr = PickI(r, []int64{0, -1, -100})
			feat["bad-header"] = true
		case x < 10:
			hdr = trueTip + r.Range(1, 2)
			feat["ahead"] = true
		case x < 16:
			hdr = tip - r.Range(0, 2) // old height again
			feat["old-header"] = true
		}
		if hdr > (1<<31)-1 {
			hdr = (1 << 31) - 1
		}
		if hdr < -(1 << 31) {
			hdr = -(1 << 31)
		}
		s.Hdr = int32(hdr)
		if !s.HdrNil && hdr > tip {
			tip = hdr
		}
		for i := range regsNow {
			th := truths[i].h
			a := &eAns{TruthH: th, Raw: int64(i) + 1}
			rep := th
			switch x := r.Intn(100); {
			case x < 6:
				a.HistErr = true
				feat["hist-err"] = true
			case x < 12:
				rep = before[i] // stale answer
			case x < 16:
				rep = PickI(r, []int64{0, -1}) // mempool
			case x < 19:
				rep = hdr + r.Range(1, 3) // above the tip
				a.TruthH = 0
				feat["tx-above-tip"] = true
			}
			if rep != th && rep > 0 {
				// the answer, not the simulated chain, is the server's view
				a.TruthH = rep
			}
			if rep > (1<<31)-1 {
				rep = (1 << 31) - 1
				a.TruthH = rep
			}
			for k := int(r.Range(0, 2)); k > 0; k-- {
				a.Hist = append(a.Hist, [2]int64{r.Range(0, 2), hdr - r.Range(0, 5)})
			}
			if rep != 0 || r.Chance(50) {
				if th != 0 || rep != 0 || r.Chance(30) {
					a.Hist = append(a.Hist, [2]int64{3, rep})
				}
			}
			if a.Hist == nil {
				a.Hist = [][2]int64{}
			}
			if r.Chance(5) {
				a.RawErr = true
			}
			if r.Chance(4) {
				a.Raw = 0
			}
			switch x := r.Intn(100); {
			case x < 8:
				a.Cb = 1
			case x < 20:
				a.Cb = 2
				feat["cb-fail"] = true
			}
			// one answer per swap and step
			for j := 0; j < i; j++ {
				if regsNow[j].Swap == regsNow[i].Swap {
					a.Cb = s.Answers[j].Cb
				}
			}
			s.Answers = append(s.Answers, a)
		}
		c.Steps = append(c.Steps, s)
	}
	// the run starts with a header step
	if c.Steps[0].Reg != nil {
		c.Steps = c.Steps[1:]
		if len(c.Steps) == 0 || c.Steps[0].Reg != nil {
			return genElec(r)
		}
	}
	fs := []string{}
	for k := range feat {
		fs = append(fs, k)
	}
	sort.Strings(fs)
	c.Feature = strings.Join(fs, "+")
	return c
}

func elecKind(c *elecCase) string {
	if !c.StartOK {
		return "electrum:start-refused"
	}
	ok, fail, csv := false, false, false
	for _, o := range c.Obs {
		for _, e := range o.Events {
			switch {
			case strings.HasPrefix(e, "confok"):
				ok = true
			case strings.HasPrefix(e, "conferr"):
				fail = true
			default:
				csv = true
			}
		}
	}
	k := "electrum:"
	if ok {
		k += "confirmed,"
	}
	if fail {
		k += "failure,"
	}
	if csv {
		k += "csv,"
	}
	if !ok && !fail && !csv {
		k += "silent,"
	}
	return strings.TrimSuffix(k, ",")
}

// ---------------------------------------------------------------- driver

type quietLogger struct{}

func (quietLogger) Infof(string, ...any)  {}
func (quietLogger) Debugf(string, ...any) {}

func runC20(args []string) error {
	fs := flag.NewFlagSet("c20", flag.ExitOnError)
	out := fs.String("out", "/verif/work/C20", "output dir")
	seed := fs.Uint64("seed", 1, "seed")
	n := fs.Int("n", 400, "cases per family")
	only := fs.String("only", "", "run only this family (csv | conf | elec)")
	monitor := fs.String("monitor", "c20_monitor", "Coq monitor function (c20_case -> bool)")
	imports := fs.String("imports", "", "extra Coq import line for the monitor")
	fs.Parse(args)
	r := NewRng(*seed)
	pslog.SetLogger(quietLogger{})

	cf := NewCaseFile("From PS Require Import Model.RpcWatcher Model.ElectrumWatcher Model.C20Corr.\n"+*imports,
		"c20_case", "c20_check", *monitor)
	nConf, nCsv, nElec := *n, *n/2, *n
	switch *only {
	case "csv":
		nConf, nCsv, nElec = 0, *n, 0
	case "conf": // the RPC watcher's confirmation loop (corpus + simulated chains + synthetic views)
		nConf, nCsv, nElec = *n, 0, 0
	case "elec": // the lwk electrum watcher
		nConf, nCsv, nElec = 0, 0, *n
	}
	stepTags := map[string]int{}

	addRpcConf := func(c *rpcConfCase) error {
		if err := runRpcConf(c); err != nil {
			return fmt.Errorf("rpc confirmation case (%s): %w", c.Feature, err)
		}
		var last uint32
		for i := range c.Obs {
			t := rpcStepTag(c, i, &last)
			c.Steps[i].Tag = t
			stepTags["rpcconf-step:"+t]++
		}
		nontriv := false
		for _, o := range c.Obs {
			nontriv = nontriv || len(o) > 0
		}
		key := c.coq()
		cf.Add(key, key, nontriv || len(c.Steps) > 1, rpcConfKind(c), c)
		return nil
	}
	if *only == "" || *only == "conf" {
		for _, c := range corpusRpcConf() {
			if err := addRpcConf(c); err != nil {
				return err
			}
		}
	}
	for i := 0; i < nConf; i++ {
		if err := addRpcConf(genRpcConfChain(r)); err != nil {
			return err
		}
	}
	for i := 0; i < nConf/2; i++ {
		if err := addRpcConf(genRpcConfSynth(r)); err != nil {
			return err
		}
	}
	for i := 0; i < nCsv; i++ {
		c := genRpcCsv(r)
		if err := runRpcCsv(c); err != nil {
			return err
		}
		cbs := 0
		for _, o := range c.Obs {
			cbs += o[0]
		}
		kind := "rpccsv:silent"
		if cbs == 1 {
			kind = "rpccsv:reported"
		} else if cbs > 1 {
			kind = "rpccsv:retried"
		}
		if c.Obs[0][0] > 0 {
			kind += "-at-registration"
		}
		key := c.coq()
		cf.Add(key, key, cbs > 0 || len(c.Ops) > 1, kind, c)
	}
	for i := 0; i < nElec; i++ {
		c := genElec(r)
		if err := runElec(c); err != nil {
			return fmt.Errorf("electrum case: %w", err)
		}
		for _, s := range c.Steps {
			if s.Reg != nil {
				continue
			}
			for _, a := range s.Answers {
				t := "no-match"
				for _, e := range a.Hist {
					if e[0] == 3 {
						switch {
						case e[1] <= 0:
							t = "match-unconfirmed"
						case !s.HdrNil && e[1] > int64(s.Hdr):
							t = "match-above-header"
						default:
							t = "match"
						}
						break
					}
				}
				if a.HistErr {
					t = "hist-err"
				}
				if a.RawErr {
					t += "+raw-err"
				}
				stepTags["electrum-answer:"+t]++
			}
		}
		key := c.coq()
		cf.Add(key, key, c.StartOK, elecKind(c), c)
	}
	return cf.Write(*out, 100, map[string]interface{}{"seed": *seed, "step_tags": stepTags})
}
