package main

// C05: the taker is restarted late in its wait for opening_tx_broadcasted; the recorded starting height must still
// be the one of the first run (every bound of the payment window is relative to it).
func init() {
	registerDirected(
		directed{"out_sender", "btc", []string{"start", "out_agreement", "tip=anchor+400", "restart", "otb", "tx_confirmed"}},
		directed{"in_receiver", "btc", []string{"request", "tip=anchor+300", "restart", "otb", "tx_confirmed"}},
		directed{"out_sender", "btc", []string{"start", "out_agreement", "tip=anchor+200", "restart", "tip=anchor+450", "restart", "otb", "tx_confirmed"}},
		directed{"in_receiver", "lbtc", []string{"request", "tip=anchor+20", "restart", "otb", "tx_confirmed"}},
		// C04 / C05: the first claim payment attempt fails, the tip crosses the end of the window between the attempts
		// (every attempt - also one made by code that polls the height at another point - must lie inside the window)
		directed{"out_sender", "lbtc", []string{"start", "out_agreement", "otb", "pay=fail1:tips=+30,+59,+61:tx_confirmed"}},
		directed{"out_sender", "lbtc", []string{"start", "out_agreement", "otb", "pay=fail1:tips=+59,+60,+60:tx_confirmed"}},
		directed{"in_receiver", "lbtc", []string{"request", "otb", "pay=fail1:tips=+58,+59,+60:tx_confirmed"}},
		directed{"out_sender", "btc", []string{"start", "out_agreement", "otb", "pay=fail1:tips=+100,+504,+505:tx_confirmed"}},
		directed{"in_receiver", "btc", []string{"request", "otb", "pay=fail1:tips=+503,+504,+505:tx_confirmed"}},
	)
}
