package main

// C05: the taker is restarted late in its wait for opening_tx_broadcasted; the recorded starting height must still
// be the one of the first run (every bound of the payment window is relative to it).
func init() {
	registerDirected(
		directed{"out_sender", "btc", []string{"start", "out_agreement", "tip=anchor+400", "restart", "otb", "tx_confirmed"}},
		directed{"in_receiver", "btc", []string{"request", "tip=anchor+300", "restart", "otb", "tx_confirmed"}},
		directed{"out_sender", "btc", []string{"start", "out_agreement", "tip=anchor+200", "restart", "tip=anchor+450", "restart", "otb", "tx_confirmed"}},
		directed{"in_receiver", "lbtc", []string{"request", "tip=anchor+20", "restart", "otb", "tx_confirmed"}},
	)
}
