package main

import (
	"fmt"
	"sort"
	"strings"

	"github.com/elementsproject/peerswap/messages"
	"github.com/elementsproject/peerswap/onchain"
	"github.com/elementsproject/peerswap/swap"
)

func coqActionTree(a *swap.VerifAction) string {
	if a == nil {
		return "None"
	}
	ch := []string{}
	for _, c := range a.Children {
		ch = append(ch, coqActionTreeInner(c))
	}
	return fmt.Sprintf("(Some (ANode %s %s))", CoqStr(a.Name), CoqList(ch))
}

func coqActionTreeInner(a *swap.VerifAction) string {
	ch := []string{}
	for _, c := range a.Children {
		ch = append(ch, coqActionTreeInner(c))
	}
	return fmt.Sprintf("(ANode %s %s)", CoqStr(a.Name), CoqList(ch))
}

func init() {
	registerDump("Tables.v", func() (string, error) {
		var b strings.Builder
		b.WriteString("From Coq Require Import String ZArith List.\nFrom PS Require Import Model.Data Model.Actions Model.Fsm.\nImport ListNotations.\nOpen Scope string_scope.\n\n")
		tabs := swap.VerifTables()
		names := []string{}
		for n := range tabs {
			names = append(names, n)
		}
		sort.Strings(names)
		allStates := map[string]bool{}
		for _, n := range names {
			fmt.Fprintf(&b, "Definition table_%s : table := [\n", n)
			for i, st := range tabs[n] {
				allStates[st.Name] = true
				evs := []string{}
				for _, e := range st.Events {
					evs = append(evs, CoqPair(CoqStr(e[0]), CoqStr(e[1])))
				}
				fmt.Fprintf(&b, "  (%s, mkState %s %s %s)", CoqStr(st.Name), coqActionTree(st.Action), CoqList(evs), CoqBool(st.FailOnrecover))
				if i+1 < len(tabs[n]) {
					b.WriteString(";")
				}
				b.WriteString("\n")
			}
			b.WriteString("].\n\n")
		}
		// terminal states, by evaluating IsFinished on every state name of every table
		sn := []string{}
		for s := range allStates {
			sn = append(sn, s)
		}
		sort.Strings(sn)
		term := []string{}
		for _, s := range sn {
			if swap.VerifIsFinished(s) {
				term = append(term, CoqStr(s))
			}
		}
		fmt.Fprintf(&b, "Definition all_state_names : list string := %s.\n", CoqStrList(sn))
		fmt.Fprintf(&b, "Definition terminal_states : list string := %s.\n", CoqList(term))
		return b.String(), nil
	})
	registerDump("ConstsSwap.v", func() (string, error) {
		var b strings.Builder
		b.WriteString("From Coq Require Import String ZArith List Bool.\nFrom PS Require Import Model.Data.\nImport ListNotations.\nOpen Scope Z_scope.\n\n")
		pol := func(chain string, v uint8) string {
			p := swap.VerifTimelockPolicy(chain, v)
			if p.Err {
				return "None"
			}
			return fmt.Sprintf("(Some (mkPolicy %d %d %d %d %s))", p.CSV, p.PaymentWindow, p.InvoiceFinalCLTV, p.MaxTotalCLTVDelta, CoqBool(p.AllowNewClaimPayment))
		}
		fmt.Fprintf(&b, "Definition protocol_version : Z := %d.\n", swap.PEERSWAP_PROTOCOL_VERSION)
		fmt.Fprintf(&b, "Definition legacy_protocol_version : Z := %d.\n", swap.VerifLegacyProtocolVersion)
		for _, c := range []string{"btc", "lbtc"} {
			for _, v := range []uint8{uint8(swap.VerifLegacyProtocolVersion), uint8(swap.PEERSWAP_PROTOCOL_VERSION)} {
				fmt.Fprintf(&b, "Definition policy_%s_v%d : option tl_policy := %s.\n", c, v, pol(c, v))
			}
		}
		// versions other than the two known ones must be rejected on both chains
		other := true
		for v := 0; v < 256; v++ {
			if v == int(swap.VerifLegacyProtocolVersion) || v == int(swap.PEERSWAP_PROTOCOL_VERSION) {
				continue
			}
			if !swap.VerifTimelockPolicy("btc", uint8(v)).Err || !swap.VerifTimelockPolicy("lbtc", uint8(v)).Err {
				other = false
			}
		}
		fmt.Fprintf(&b, "Definition other_versions_rejected : bool := %s.\n", CoqBool(other))
		fmt.Fprintf(&b, "Definition unknown_chain_rejected : bool := %s.\n", CoqBool(swap.VerifTimelockPolicy("", uint8(swap.PEERSWAP_PROTOCOL_VERSION)).Err))
		fmt.Fprintf(&b, "Definition bitcoin_csv : Z := %d.\nDefinition bitcoin_min_confs : Z := %d.\nDefinition bitcoin_csv_safety_limit : Z := %d.\n", onchain.BitcoinCsv, onchain.BitcoinMinConfs, onchain.BitcoinCsvSafetyLimit)
		fmt.Fprintf(&b, "Definition liquid_csv_legacy : Z := %d.\nDefinition liquid_confs : Z := %d.\n", onchain.LiquidCsv, onchain.LiquidConfs)
		mt := []struct {
			n string
			v messages.MessageType
		}{
			{"swapinrequest", messages.MESSAGETYPE_SWAPINREQUEST}, {"swapoutrequest", messages.MESSAGETYPE_SWAPOUTREQUEST},
			{"swapinagreement", messages.MESSAGETYPE_SWAPINAGREEMENT}, {"swapoutagreement", messages.MESSAGETYPE_SWAPOUTAGREEMENT},
			{"openingtxbroadcasted", messages.MESSAGETYPE_OPENINGTXBROADCASTED}, {"canceled", messages.MESSAGETYPE_CANCELED},
			{"coopclose", messages.MESSAGETYPE_COOPCLOSE},
		}
		for _, m := range mt {
			fmt.Fprintf(&b, "Definition msgtype_%s : Z := %d.\n", m.n, int(m.v))
		}
		b.WriteString(`
Definition the_policy (o : option tl_policy) : tl_policy := match o with Some p => p | None => zero_policy end.
Definition tl_consts_gen : tl_consts :=
  mkTlConsts legacy_protocol_version protocol_version
    (the_policy policy_btc_v7) (the_policy policy_lbtc_v6) (the_policy policy_lbtc_v7)
    bitcoin_csv liquid_csv_legacy.
`)
		return b.String(), nil
	})
}
