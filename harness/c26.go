package main

// C26: peers that forced a CSV refund are quarantined.
//
// psh c26: one scenario = a maker swap on the REAL SwapService whose policy is the REAL
// policy.Policy backed by a file; the swap ends by CSV refund (or, as control, otherwise);
// afterwards the same peer tries everything again: both request types, the node's own
// SwapOut / SwapIn RPCs towards it, and peer-sync traffic (REAL peersync handler and poller
// wired to the same policy object).  Observed: the policy file, the policy's answers after a
// reload from that file, and what each later attempt produced.

import (
	"context"
	"encoding/json"
	"flag"
	"fmt"
	"os"
	"path/filepath"
	"strings"
	"sync"
	"time"

	"github.com/btcsuite/btcd/btcec/v2"
	"github.com/elementsproject/peerswap/messages"
	"github.com/elementsproject/peerswap/peersync"
	"github.com/elementsproject/peerswap/policy"
	"github.com/elementsproject/peerswap/premium"
	"github.com/elementsproject/peerswap/swap"
	"go.etcd.io/bbolt"
)

type c26Res struct {
	Role, Chain, End string
	PolicyWritable   bool
	AllowlistChurn   bool   // after the first swap ended the operator added the peer to the allowlist and removed it again
	Final            string // final state of the first swap
	SuspEffect       bool   // AddToSuspiciousPeerList was called for the peer
	InFile           bool   // the policy file has the line suspicious_peers=<peer>
	InMemory         bool   // policy.IsPeerSuspicious(peer)
	AfterReload      bool   // a policy freshly created from the file says so too
	// later attempts by / towards the peer
	ReqOutCancelled, ReqInCancelled bool // the request ended in SwapCanceled with a cancel message to the peer
	ReqOutAgreed, ReqInAgreed       bool // an agreement / fee invoice went out
	RpcOutRefused, RpcInRefused     bool // SwapOut / SwapIn returned an error
	RpcSent                         int  // messages sent by the two RPC attempts
	RpcActive                       int  // active swaps left behind by them
	PsReqPollSends, PsPollSends     int  // peer-sync messages sent in answer to request_poll / poll from the peer
	PsStored                        bool // the peer's capability was stored
	PsPollerSends                   int  // peer-sync messages the poller sent to the peer (connected, forced poll)
	// control: another, innocent peer gets service
	OtherReqPollSends int
	OtherStored       bool
	OtherPollerSends  int
	Note              string
	ok                bool
}

// the real policy, with the calls of AddToSuspiciousPeerList recorded
type c26Policy struct {
	*policy.Policy
	mu    sync.Mutex
	added []string
}

func (p *c26Policy) AddToSuspiciousPeerList(pubkey string) error {
	p.mu.Lock()
	p.added = append(p.added, pubkey)
	p.mu.Unlock()
	return p.Policy.AddToSuspiciousPeerList(pubkey)
}

func c26NewNode(env *Env, db *bbolt.DB, pol swap.Policy) (*Node, error) {
	inner, err := swap.NewBboltStore(db)
	if err != nil {
		return nil, err
	}
	ps, err := premium.NewSetting(db)
	if err != nil {
		return nil, err
	}
	n := &Node{env: env, db: db, ps: ps}
	n.store = &fakeStore{env: env, inner: inner}
	n.msgr = &fakeMessenger{env: env}
	n.mgr = &fakeManager{env: env}
	n.ln = &fakeLightning{env: env}
	n.btc = &fakeChain{env: env, chain: "btc"}
	n.lbtc = &fakeChain{env: env, chain: "lbtc"}
	services := swap.NewSwapServices(n.store, &fakeReqStore{env}, n.ln, n.msgr, n.mgr, pol,
		env.BitcoinEnabled, n.btc, n.btc, n.btc, env.LiquidEnabled, n.lbtc, n.lbtc, n.lbtc, ps)
	n.svc = swap.NewSwapService(services)
	to, err := n.svc.VerifStart()
	if err != nil {
		return nil, err
	}
	n.to = to
	return n, nil
}

func (n *Node) c26SentSince(from int) (total int, cancels int, agreements int) {
	n.env.mu.Lock()
	defer n.env.mu.Unlock()
	for _, m := range n.msgr.Sent[from:] {
		total++
		switch messages.MessageType(m.Type) {
		case messages.MESSAGETYPE_CANCELED:
			cancels++
		case messages.MESSAGETYPE_SWAPINAGREEMENT, messages.MESSAGETYPE_SWAPOUTAGREEMENT:
			agreements++
		}
	}
	return
}
func (n *Node) c26SentLen() int {
	n.env.mu.Lock()
	defer n.env.mu.Unlock()
	return len(n.msgr.Sent)
}

func c26Payload() []byte {
	m := map[string]interface{}{"version": uint64(swap.PEERSWAP_PROTOCOL_VERSION), "assets": []string{"btc", "lbtc"}, "peer_allowed": true}
	b, _ := json.Marshal(m)
	return b
}

func c26Stored(st *peersync.Store, peer string) bool {
	d, err := peersync.VerifC28Dump(st)
	if err != nil {
		return false
	}
	for _, r := range d {
		if r.Key == peer || r.ID == peer {
			return true
		}
	}
	return false
}

func c26Run(seed uint64, idx int, role, chain, end string, writable bool, dir string) (res c26Res) {
	res = c26Res{Role: role, Chain: chain, End: end, PolicyWritable: writable}
	r := NewRng(seed)
	env := newEnv(r)
	os.MkdirAll(dir, 0o755)
	polPath := filepath.Join(dir, "policy.conf")
	os.WriteFile(polPath, []byte("accept_all_peers=true\n"), 0o644)
	pol, err := policy.CreateFromFile(polPath)
	if err != nil {
		res.Note = err.Error()
		return
	}
	db, err := bbolt.Open(filepath.Join(dir, "swaps.db"), 0o600, &bbolt.Options{Timeout: 2 * time.Second, NoSync: true})
	if err != nil {
		res.Note = err.Error()
		return
	}
	defer db.Close()
	rec := &c26Policy{Policy: pol}
	node, err := c26NewNode(env, db, rec)
	if err != nil {
		res.Note = err.Error()
		return
	}
	pk, _ := btcec.NewPrivateKey()
	sc := &Scen{r: r, env: env, node: node, peerKey: pk, role: role, chain: chain, version: 7, clean: true,
		peer: "02" + randHex(r, 32), self: "03" + randHex(r, 32),
		scid:   fmt.Sprintf("%dx%dx%d", r.Range(100, 900000), r.Range(1, 3000), r.Range(0, 5)),
		amount: uint64(r.Range(100000, 5000000))}
	if role == "out_receiver" {
		sc.stepNamed("request")
		sc.stepNamed("paid_fee")
	} else {
		sc.stepNamed("start")
		if sc.id != nil {
			sc.stepNamed("in_agreement")
		}
	}
	if m := sc.current(); m == nil || !strings.Contains(string(m.Current), "AwaitClaim") {
		res.Note = "maker did not reach the wait for the claim payment"
		return
	}
	if !writable {
		// the policy file cannot be appended to any more
		os.Chmod(polPath, 0o444)
		os.Remove(polPath)
		os.Mkdir(polPath, 0o755) // a directory in its place: OpenFile(O_APPEND|O_WRONLY) and ReadFile fail
	}
	switch end {
	case "csv":
		sc.stepNamed("csv")
	case "cancel_csv":
		sc.stepNamed("cancel")
		sc.stepNamed("csv")
	case "paid":
		sc.stepNamed("paid_claim")
	case "coop":
		sc.stepNamed("coop")
	}
	if sc.held != nil {
		res.Final = string(sc.held.Current)
	}
	if writable && chain == "lbtc" {
		// an unrelated policy edit about the same peer: a quarantine has to survive it
		res.AllowlistChurn = true
		pol.AddToAllowlist(sc.peer)
		pol.RemoveFromAllowlist(sc.peer)
	}
	rec.mu.Lock()
	for _, a := range rec.added {
		if a == sc.peer {
			res.SuspEffect = true
		}
	}
	rec.mu.Unlock()
	if b, err := os.ReadFile(polPath); err == nil {
		for _, l := range strings.Split(string(b), "\n") {
			if strings.TrimSpace(l) == "suspicious_peers="+sc.peer {
				res.InFile = true
			}
		}
	}
	res.InMemory = pol.IsPeerSuspicious(sc.peer)
	if p2, err := policy.CreateFromFile(polPath); err == nil {
		res.AfterReload = p2.IsPeerSuspicious(sc.peer)
	}

	// ---- later attempts ----
	firstId := sc.id
	chans := 0
	nextChan := func() string {
		chans++
		return fmt.Sprintf("%dx%dx%d", 700000+idx, chans, 0)
	}
	try := func(reqRole string) (cancelled, agreed bool) {
		from := node.c26SentLen()
		sc.scid = nextChan()
		sc.role = reqRole
		sc.id = nil
		sc.held = nil
		sc.stepRequest()
		_, cancels, agreements := node.c26SentSince(from)
		state := ""
		if sc.id != nil {
			if m, err := node.store.GetData(sc.id.String()); err == nil {
				state = string(m.Current)
			}
		}
		active := sc.id != nil && node.svc.VerifActiveSwap(sc.id.String()) != nil
		return state == "State_SwapCanceled" && cancels >= 1 && !active, agreements > 0
	}
	res.ReqOutCancelled, res.ReqOutAgreed = try("out_receiver")
	res.ReqInCancelled, res.ReqInAgreed = try("in_receiver")
	sc.id = firstId
	from := node.c26SentLen()
	activeBefore := len(node.svc.VerifActiveIds())
	_, e1 := node.svc.SwapOut(sc.peer, chain, nextChan(), sc.self, sc.amount, 10000)
	_, e2 := node.svc.SwapIn(sc.peer, chain, nextChan(), sc.self, sc.amount, 10000)
	res.RpcOutRefused, res.RpcInRefused = e1 != nil, e2 != nil
	res.RpcSent, _, _ = node.c26SentSince(from)
	res.RpcActive = len(node.svc.VerifActiveIds()) - activeBefore

	// ---- peer-sync with the same policy object ----
	st, err := peersync.NewStore(filepath.Join(dir, "peers.db"))
	if err != nil {
		res.Note = err.Error()
		return
	}
	defer st.Close()
	peersync.VerifC28NoSync(st)
	other := "03" + randHex(r, 32)
	ln := &c28LN{sendFail: map[string]bool{}, connected: []string{sc.peer, other}}
	self, _ := peersync.NewPeerID(sc.self)
	ps := peersync.NewPeerSync(self, st, ln, pol, []string{"btc", "lbtc"}, node.ps)
	ctx := context.Background()
	count := func(to string) int {
		n := 0
		for _, s := range ln.sent {
			if s.To == to {
				n++
			}
		}
		return n
	}
	pid, _ := peersync.NewPeerID(sc.peer)
	oid, _ := peersync.NewPeerID(other)
	peersync.VerifC28ProcessMessage(ctx, ps, peersync.CustomMessage{From: pid, Type: messages.MESSAGETYPE_REQUEST_POLL, Payload: c26Payload()})
	res.PsReqPollSends = count(sc.peer)
	peersync.VerifC28ProcessMessage(ctx, ps, peersync.CustomMessage{From: pid, Type: messages.MESSAGETYPE_POLL, Payload: c26Payload()})
	res.PsPollSends = count(sc.peer) - res.PsReqPollSends
	res.PsStored = c26Stored(st, sc.peer)
	peersync.VerifC28ProcessMessage(ctx, ps, peersync.CustomMessage{From: oid, Type: messages.MESSAGETYPE_REQUEST_POLL, Payload: c26Payload()})
	res.OtherReqPollSends = count(other)
	res.OtherStored = c26Stored(st, other)
	b0, o0 := count(sc.peer), count(other)
	ps.ForcePollAllPeers(ctx)
	res.PsPollerSends = count(sc.peer) - b0
	res.OtherPollerSends = count(other) - o0
	res.ok = true
	return
}

func init() {
	register("c26", "CSV refund -> real policy file -> later requests, RPCs and peer-sync traffic of that peer", func(args []string) error {
		fs := flag.NewFlagSet("c26", flag.ExitOnError)
		out := fs.String("out", "/verif/work/c26", "output dir")
		seed := fs.Uint64("seed", 1, "seed")
		n := fs.Int("n", 24, "scenarios")
		fs.Parse(args)
		os.Setenv("PAYMENT_RETRY_TIME", "2")
		r := NewRng(*seed)
		tmp := filepath.Join(*out, "tmp")
		os.RemoveAll(tmp)
		ends := []string{"csv", "cancel_csv", "csv", "paid", "coop", "csv"}
		results := make([]c26Res, *n)
		var wg sync.WaitGroup
		sem := make(chan struct{}, 16)
		for i := 0; i < *n; i++ {
			role := []string{"out_receiver", "in_sender"}[i%2]
			chain := []string{"btc", "lbtc"}[(i/2)%2]
			end := ends[(i/4)%len(ends)]
			writable := !(end == "csv" && (i/4)%len(ends) == 5)
			s := r.U64()
			wg.Add(1)
			sem <- struct{}{}
			go func(i int, s uint64) {
				defer wg.Done()
				defer func() { <-sem }()
				results[i] = c26Run(s, i, role, chain, end, writable, filepath.Join(tmp, fmt.Sprintf("s%d", i)))
			}(i, s)
		}
		wg.Wait()
		os.RemoveAll(tmp)
		cf := NewCaseFile("From PS Require Import Model.C26Corr.", "c26_case", "c26_check", "c26_monitor")
		skipped := 0
		for i, res := range results {
			if !res.ok {
				skipped++
				fmt.Fprintf(os.Stderr, "c26 scenario %d skipped: %s\n", i, res.Note)
				continue
			}
			b := CoqBool
			z := func(v int) string { return CoqZ(int64(v)) }
			term := fmt.Sprintf("mkC26 %s %s %s %s %s %s %s %s (%s, %s) (%s, %s) (%s, %s) %s %s (%s, %s, %s, %s) (%s, %s, %s)",
				CoqStr(res.Role), CoqStr(res.End), b(res.PolicyWritable), CoqStr(res.Final),
				b(res.SuspEffect), b(res.InFile), b(res.InMemory), b(res.AfterReload),
				b(res.ReqOutCancelled), b(res.ReqOutAgreed), b(res.ReqInCancelled), b(res.ReqInAgreed),
				b(res.RpcOutRefused), b(res.RpcInRefused), z(res.RpcSent), z(res.RpcActive),
				z(res.PsReqPollSends), z(res.PsPollSends), b(res.PsStored), z(res.PsPollerSends),
				z(res.OtherReqPollSends), b(res.OtherStored), z(res.OtherPollerSends))
			js, _ := json.Marshal(res)
			var jm map[string]interface{}
			json.Unmarshal(js, &jm)
			jm["scenario"] = i
			cf.Add(term, fmt.Sprintf("%s|%s|%s|%v", res.Role, res.Chain, res.End, res.PolicyWritable), true,
				fmt.Sprintf("%s/end=%s/writable=%v/allowlist_churn=%v", res.Role, res.End, res.PolicyWritable, res.AllowlistChurn), jm)
		}
		if skipped > len(results)/2 {
			return fmt.Errorf("c26: %d of %d scenarios did not run", skipped, len(results))
		}
		return cf.Write(*out, 64, map[string]interface{}{"seed": *seed, "skipped": skipped})
	})
}
