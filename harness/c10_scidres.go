package main

// C10, channel-id spellings, adapter side: lockSwap keeps two spellings apart unless they are equal after replacing
// ':' by 'x' (sameChannel). A Lightning adapter that resolved MORE spellings to a channel (leading zeros, signs,
// blanks, numeric parsing) would let a request for a busy channel pass both the channel look-up and lockSwap.
// psh scidres asks the REAL lnd.Client (fake lnrpc client) and the REAL ClightningClient (fake lightningd socket) for
// the spendable / receivable balance of many spellings while the node has exactly one channel, and records whether
// the spelling was resolved to that channel.

import (
	"context"
	"errors"
	"flag"
	"fmt"
	"os"
	"strings"

	"github.com/elementsproject/peerswap/clightning"
	pslnd "github.com/elementsproject/peerswap/lnd"
	"github.com/lightningnetwork/lnd/lnrpc"
	"google.golang.org/grpc"
)

func init() {
	register("scidres", "which spellings of a channel id the real lnd / clightning adapters resolve to a channel", runScidRes)
}

type scidLnd struct {
	lnrpc.LightningClient // nil: any other RPC would panic
	chans                 []*lnrpc.Channel
}

func (f *scidLnd) ListChannels(ctx context.Context, in *lnrpc.ListChannelsRequest, opts ...grpc.CallOption) (*lnrpc.ListChannelsResponse, error) {
	return &lnrpc.ListChannelsResponse{Channels: f.chans}, nil
}

func (f *scidLnd) ListPeers(ctx context.Context, in *lnrpc.ListPeersRequest, opts ...grpc.CallOption) (*lnrpc.ListPeersResponse, error) {
	var ps []*lnrpc.Peer
	for _, c := range f.chans {
		ps = append(ps, &lnrpc.Peer{PubKey: c.RemotePubkey})
	}
	return &lnrpc.ListPeersResponse{Peers: ps}, nil
}

func (f *scidLnd) GetChanInfo(ctx context.Context, in *lnrpc.ChanInfoRequest, opts ...grpc.CallOption) (*lnrpc.ChannelEdge, error) {
	return nil, errors.New("no graph information")
}

// spellings of the channel (b, t, o) and of neighbours, mostly ones that are NOT the channel for lockSwap
func scidSpellings(r *Rng, b, t, o uint64) []string {
	can := fmt.Sprintf("%dx%dx%d", b, t, o)
	ids := []string{can, strings.ReplaceAll(can, "x", ":"), fmt.Sprintf("%dx%d:%d", b, t, o), fmt.Sprintf("%d:%dx%d", b, t, o),
		fmt.Sprintf("0%dx%dx%d", b, t, o), fmt.Sprintf("%dx0%dx%d", b, t, o), fmt.Sprintf("%dx%dx0%d", b, t, o),
		fmt.Sprintf("00%d:%d:%d", b, t, o), fmt.Sprintf("%d:00%d:%d", b, t, o), fmt.Sprintf("%d:%d:00%d", b, t, o),
		fmt.Sprintf("+%dx%dx%d", b, t, o), fmt.Sprintf("%dx+%dx%d", b, t, o), fmt.Sprintf(" %dx%dx%d", b, t, o), fmt.Sprintf("%dx%dx%d ", b, t, o),
		fmt.Sprintf("%d x %d x %d", b, t, o), fmt.Sprintf("%dX%dX%d", b, t, o), fmt.Sprintf("%dx%dx%dx0", b, t, o), fmt.Sprintf("%dx%d", b, t),
		fmt.Sprintf("%dx%dx%d", b+1, t, o), fmt.Sprintf("%dx%dx%d", b, t+1, o), fmt.Sprintf("%dx%dx%d", b, t, o+1),
		fmt.Sprintf("%dx%dx%d", b+(1<<24), t, o), fmt.Sprintf("%dx%dx%d", b, t+(1<<24), o), fmt.Sprintf("%dx%dx%d", b, t, o+(1<<16)),
		fmt.Sprintf("%d", (b<<40)|(t<<16)|o), fmt.Sprintf("0x%xx%dx%d", b, t, o), fmt.Sprintf("%d.0x%dx%d", b, t, o), fmt.Sprintf("%de0x%dx%d", b, t, o), ""}
	for i := 0; i < 6; i++ {
		part := func(v uint64) string {
			s := fmt.Sprint(v)
			switch r.Intn(6) {
			case 0:
				s = "0" + s
			case 1:
				s = "+" + s
			case 2:
				s = fmt.Sprint(v + uint64(r.Range(1, 3)))
			}
			return s
		}
		sep := PickS(r, []string{"x", ":"})
		ids = append(ids, part(b)+sep+part(t)+sep+part(o))
	}
	return ids
}

func runScidRes(args []string) error {
	fs := flag.NewFlagSet("scidres", flag.ExitOnError)
	out := fs.String("out", "/verif/work/C10/scidres", "output dir")
	seed := fs.Uint64("seed", 1, "seed")
	n := fs.Int("n", 6, "random channels (after the fixed ones)")
	fs.Parse(args)
	r := NewRng(*seed)
	if err := os.MkdirAll(*out, 0o755); err != nil {
		return err
	}
	cf := NewCaseFile("From PS Require Import Model.C10ScidRes.", "scidres_case", "scidres_check", "scidres_monitor")
	fake, err := startFakeCln(*out)
	if err != nil {
		return err
	}
	defer fake.ln.Close()
	cl, err := clightning.VerifNewClientOnSocket(*out, "lightning-rpc")
	if err != nil {
		return err
	}
	defer cl.VerifShutdown()
	type ch struct{ b, t, o uint64 }
	chans := []ch{{100, 1, 0}, {700000, 1, 0}, {539268, 845, 1}, {1, 1, 1}, {16777215, 16777215, 65535}}
	for i := 0; i < *n; i++ {
		chans = append(chans, ch{uint64(r.Range(1, 900000)), uint64(r.Range(0, 4000)), uint64(r.Range(0, 3))})
	}
	peer := "02" + strings.Repeat("ab", 32)
	for _, c := range chans {
		can := fmt.Sprintf("%dx%dx%d", c.b, c.t, c.o)
		fl := &scidLnd{chans: []*lnrpc.Channel{{ChanId: (c.b << 40) | (c.t << 16) | c.o, Active: true, RemotePubkey: peer,
			LocalBalance: 5000000, RemoteBalance: 5000000, Capacity: 10000000,
			LocalConstraints: &lnrpc.ChannelConstraints{ChanReserveSat: 1000}, RemoteConstraints: &lnrpc.ChannelConstraints{ChanReserveSat: 1000}}}}
		lc := pslnd.VerifNewClient(fl, nil)
		fake.mu.Lock()
		fake.peerChans = []map[string]interface{}{{"peer_id": peer, "peer_connected": true, "state": "CHANNELD_NORMAL", "short_channel_id": can,
			"total_msat": 10000000000, "to_us_msat": 5000000000, "receivable_msat": 4000000000, "spendable_msat": 4000000000}}
		fake.mu.Unlock()
		for _, id := range scidSpellings(r, c.b, c.t, c.o) {
			fns := []struct {
				backend, fn string
				f           func(string) (uint64, error)
			}{{"lnd", "SpendableMsat", lc.SpendableMsat}, {"lnd", "ReceivableMsat", lc.ReceivableMsat},
				{"cln", "SpendableMsat", cl.SpendableMsat}, {"cln", "ReceivableMsat", cl.ReceivableMsat}}
			for _, f := range fns {
				_, err := f.f(id)
				resolved := err == nil
				term := fmt.Sprintf("mkScidRes %s %s %s %s %s", CoqStr(f.backend), CoqStr(f.fn), CoqStr(id), CoqStr(can), CoqBool(resolved))
				kind := "scidres-" + f.backend
				if resolved {
					kind += "-resolved"
				}
				cf.Add(term, "scidres|"+f.backend+"|"+f.fn+"|"+can+"|"+id, resolved || strings.Contains(id, "0"), kind,
					map[string]interface{}{"family": "scidres", "backend": f.backend, "fn": f.fn, "id": id, "node_channel": can, "resolved": resolved})
			}
		}
	}
	return cf.Write(*out, 400, map[string]interface{}{"seed": *seed})
}
