package main

// C05, lnd back-end: the lnd TxWatcher is the one place that looks at the opening transaction's CONFIRMATION height.
// When lnd reports the transaction confirmed in block H the watcher asks for the current height T and hands the
// transaction to the swap (the taker then pays) only while it has fewer than BitcoinCsvSafetyLimit (504)
// confirmations; otherwise it reports "csv passed". psh lndwatch drives the REAL lnd.TxWatcher over fake lnd RPC
// clients (confirmation stream, GetInfo) through (H, T) pairs around the boundaries and the uint32 wrap.

import (
	"context"
	"flag"
	"fmt"
	"io"
	"os"
	"strings"
	"time"

	"github.com/btcsuite/btcd/chaincfg"
	pslog "github.com/elementsproject/peerswap/log"
	pslnd "github.com/elementsproject/peerswap/lnd"
	"github.com/elementsproject/peerswap/onchain"
	"github.com/lightningnetwork/lnd/lnrpc"
	"github.com/lightningnetwork/lnd/lnrpc/chainrpc"
	"google.golang.org/grpc"
)

type lwLnd struct {
	lnrpc.LightningClient
	height uint32
	fail   bool
}

func (f *lwLnd) GetInfo(context.Context, *lnrpc.GetInfoRequest, ...grpc.CallOption) (*lnrpc.GetInfoResponse, error) {
	if f.fail {
		return nil, errFake
	}
	return &lnrpc.GetInfoResponse{BlockHeight: f.height}, nil
}

type lwNotifier struct {
	chainrpc.ChainNotifierClient
	confHeight uint32
}

func (f *lwNotifier) RegisterConfirmationsNtfn(ctx context.Context, _ *chainrpc.ConfRequest, _ ...grpc.CallOption) (chainrpc.ChainNotifier_RegisterConfirmationsNtfnClient, error) {
	return &lwConfStream{ctx: ctx, confHeight: f.confHeight}, nil
}

type lwConfStream struct {
	grpc.ClientStream
	ctx        context.Context
	confHeight uint32
	sent       bool
}

func (s *lwConfStream) Recv() (*chainrpc.ConfEvent, error) {
	if s.sent {
		<-s.ctx.Done()
		return nil, io.EOF
	}
	s.sent = true
	return &chainrpc.ConfEvent{Event: &chainrpc.ConfEvent_Conf{Conf: &chainrpc.ConfDetails{RawTx: []byte{0xde, 0xad}, BlockHeight: s.confHeight}}}, nil
}

func init() {
	registerDump("ConstsLndWatch.v", func() (string, error) {
		return fmt.Sprintf("From Coq Require Import ZArith.\nOpen Scope Z_scope.\n(* onchain.BitcoinCsvSafetyLimit, onchain.BitcoinCsv *)\nDefinition gen_lndwatch_safety_limit : Z := %d.\nDefinition gen_lndwatch_bitcoin_csv : Z := %d.\n",
			onchain.BitcoinCsvSafetyLimit, onchain.BitcoinCsv), nil
	})
	register("lndwatch", "confirmation decision of the real lnd.TxWatcher over fake lnd RPC clients", runLndWatch)
}

func runLndWatch(args []string) error {
	fs := flag.NewFlagSet("lndwatch", flag.ExitOnError)
	out := fs.String("out", "/verif/work/C05/lndwatch", "output dir")
	seed := fs.Uint64("seed", 1, "seed")
	n := fs.Int("n", 60, "random cases (after the boundary grid)")
	fs.Parse(args)
	pslog.SetLogger(quietLogger{})
	r := NewRng(*seed)
	if err := os.MkdirAll(*out, 0o755); err != nil {
		return err
	}
	cf := NewCaseFile("From PS Require Import Model.C05LndWatch.", "lw_case", "lw_check", "lw_monitor")
	type hc struct {
		h, t uint32
		fail bool
	}
	cases := []hc{}
	lim := uint32(onchain.BitcoinCsvSafetyLimit)
	for _, h := range []uint32{1, 700, 800000, 4294966000} {
		for _, confs := range []uint32{1, 2, 3, 4, lim - 2, lim - 1, lim, lim + 1, 2 * lim, 2*lim + 1} {
			cases = append(cases, hc{h, h + confs - 1, false})
		}
		cases = append(cases, hc{h, h - 1, false}) // the node's height is BELOW the confirmation height (uint32 wrap)
	}
	cases = append(cases, hc{800000, 800010, true})
	for i := 0; i < *n; i++ {
		h := uint32(r.Range(1, 900000))
		cases = append(cases, hc{h, h + uint32(r.Range(0, 1200)), false})
	}
	for _, c := range cases {
		ctx, cancel := context.WithCancel(context.Background())
		w := pslnd.VerifNewTxWatcher(ctx, &lwLnd{height: c.t, fail: c.fail}, &lwNotifier{confHeight: c.h}, &chaincfg.RegressionNetParams, 3, uint32(onchain.BitcoinCsv))
		confirmed := make(chan struct{}, 1)
		csvPassed := make(chan struct{}, 1)
		w.AddConfirmationCallback(func(swapId, txHex string, err error) error { confirmed <- struct{}{}; return nil })
		w.AddCsvCallback(func(swapId string) error { csvPassed <- struct{}{}; return nil })
		w.AddWaitForConfirmationTx("swap", strings.Repeat("aa", 32), 0, 1, uint32(onchain.BitcoinCsvSafetyLimit), []byte{0x00})
		verdict := 2 // 0 confirmed (the taker goes on to pay), 1 csv passed, 2 nothing
		wait := 10 * time.Second
		if c.fail {
			wait = 300 * time.Millisecond
		}
		select {
		case <-confirmed:
			verdict = 0
		case <-csvPassed:
			verdict = 1
		case <-time.After(wait):
		}
		cancel()
		_ = w.Stop()
		term := fmt.Sprintf("mkLw %s %s %s %d%%N", CoqZ(int64(c.h)), CoqZ(int64(c.t)), CoqBool(c.fail), verdict)
		cf.Add(term, fmt.Sprintf("%d|%d|%v", c.h, c.t, c.fail), true, fmt.Sprintf("lndwatch:%s", []string{"confirmed", "csv-passed", "nothing"}[verdict]),
			map[string]interface{}{"family": "lndwatch", "confirmation_height": c.h, "node_height": c.t, "getinfo_fails": c.fail,
				"verdict": []string{"confirmed", "csv-passed", "nothing"}[verdict]})
	}
	return cf.Write(*out, 200, map[string]interface{}{"seed": *seed})
}
