package main

// Crash steps and plan modifiers for directed scenarios (C06, C15), and the
// "crash" step observer.  New file; uses only the additive hooks
// registerStepKind / registerDoStepHook / registerObserver and Env.crashAt.
//
// Directed step syntax:   <mod>:<mod>:...:<base step>
//   crash@K        the process dies when the K-th effect (1-based) of the step is about to happen: K-1 effects
//                  happen; all objects are dropped and a new process is created on the same store.  RecoverSwaps is
//                  NOT run (that is the next "restart" step).
//   pay=fail       the claim payment attempts of this step return an error and the HTLC has failed back
//   pay=pending    ... return an error while the HTLC is still in flight (the node sees the same error)
//   pay=fail1      the first attempt fails, the second succeeds
//   spend=failN    the first N claim/refund broadcasts of this step fail
//   store=failN    the N-th store write of this step fails (1-based)
//   validate=fail / validate=err   ValidateTx answers false / an error
//   recoverpay=fail   RecoverClaimPayment fails
//   send=fail      the first SendMessage of this step fails
//   retries=N      the in-memory retry counter of the machine is N when the step starts (verif hook; the real
//                  backoff sleeps up to 20 s per retry)
// and the plain step  tipstored=anchor+N : like tip=anchor+N but relative to the STORED record (usable after a crash)

import (
	"errors"
	"fmt"
	"hash/fnv"
	"os"
	"regexp"
	"strconv"
	"strings"
	"sync"

	"github.com/elementsproject/peerswap/swap"
)

type stepMods struct {
	crashAt  int
	pay      string
	spendN   int
	storeN   int
	validate string
	recover  string
	retries  int
	sendFail bool
	// the wallet cannot create the opening transaction / the chain back-end cannot tell the height
	openingFail, heightFail bool
	tips                    []int64
}

type crashInfo struct {
	crashed bool
	count   int    // effects that happened before the process died
	pend    string // "", "pending": label of failed pay attempts of this step
	set     bool
}

var (
	crashMu   sync.Mutex
	crashMods = map[*Scen]*stepMods{}
	crashLast = map[*Scen]*crashInfo{}
)

// focusArg: the -focus value of the command line (init-time registration of scenarios is per property)
func focusArg() string {
	for i, a := range os.Args {
		if (a == "-focus" || a == "--focus") && i+1 < len(os.Args) {
			return os.Args[i+1]
		}
		if strings.HasPrefix(a, "-focus=") {
			return strings.TrimPrefix(a, "-focus=")
		}
		if strings.HasPrefix(a, "--focus=") {
			return strings.TrimPrefix(a, "--focus=")
		}
	}
	return ""
}

func parseMods(name string) (*stepMods, string, bool) {
	parts := strings.Split(name, ":")
	if len(parts) < 2 {
		return nil, name, false
	}
	m := &stepMods{}
	for _, p := range parts[:len(parts)-1] {
		switch {
		case strings.HasPrefix(p, "crash@"):
			m.crashAt, _ = strconv.Atoi(strings.TrimPrefix(p, "crash@"))
		case strings.HasPrefix(p, "pay="):
			m.pay = strings.TrimPrefix(p, "pay=")
		case strings.HasPrefix(p, "spend=fail"):
			m.spendN, _ = strconv.Atoi(strings.TrimPrefix(p, "spend=fail"))
		case strings.HasPrefix(p, "store=fail"):
			m.storeN, _ = strconv.Atoi(strings.TrimPrefix(p, "store=fail"))
		case strings.HasPrefix(p, "validate="):
			m.validate = strings.TrimPrefix(p, "validate=")
		case strings.HasPrefix(p, "recoverpay="):
			m.recover = strings.TrimPrefix(p, "recoverpay=")
		case p == "send=fail":
			m.sendFail = true
		case strings.HasPrefix(p, "tips="):
			// the answers of the height polls of this step, as offsets from the swap's recorded starting height
			for _, x := range strings.Split(strings.TrimPrefix(p, "tips="), ",") {
				v, err := strconv.ParseInt(strings.TrimPrefix(x, "+"), 10, 64)
				if err != nil {
					return nil, name, false
				}
				m.tips = append(m.tips, v)
			}
		case p == "opening=fail":
			m.openingFail = true
		case p == "height=fail":
			m.heightFail = true
		case strings.HasPrefix(p, "retries="):
			m.retries, _ = strconv.Atoi(strings.TrimPrefix(p, "retries="))
		default:
			return nil, name, false
		}
	}
	return m, parts[len(parts)-1], true
}

func init() {
	registerStepKind(func(sc *Scen, name string) bool {
		if strings.HasPrefix(name, "tipstored=anchor") {
			var off int64
			fmt.Sscanf(strings.TrimPrefix(name, "tipstored=anchor"), "%d", &off)
			if sc.id != nil {
				if m, err := sc.node.store.GetData(sc.id.String()); err == nil && m != nil && m.Data != nil {
					sc.env.CurHeight = uint32(int64(m.Data.StartingBlockHeight) + off)
				}
			}
			return true
		}
		if name == "tx_confirmed_err" {
			// the watcher reports an error (payment window closed): OnTxConfirmed(id, hex, err)
			hexs := "0200" + randHex(sc.r, 16)
			sc.doStep(stepSpec{kind: "tx_confirmed(err=true)", plan: sc.randomPlan(),
				input: func(post *swap.SwapStateMachine) string {
					return fmt.Sprintf("InTxConfirmed %s true", CoqStr(hexs))
				},
				call: func() error {
					return sc.node.svc.OnTxConfirmed(sc.ident(), hexs, errors.New("watcher: payment window closed"))
				}})
			return true
		}
		m, base, ok := parseMods(name)
		if !ok {
			return false
		}
		crashMu.Lock()
		crashMods[sc] = m
		crashMu.Unlock()
		sc.stepNamed(base)
		crashMu.Lock()
		delete(crashMods, sc)
		crashMu.Unlock()
		return true
	})
	registerDoStepHook(crashHook)
	registerObserver("crash", crashObserver)
}

func crashHook(sc *Scen, sp *stepSpec) {
	crashMu.Lock()
	m := crashMods[sc]
	delete(crashMods, sc)
	delete(crashLast, sc)
	crashMu.Unlock()
	if m == nil {
		return
	}
	info := &crashInfo{set: true}
	switch m.pay {
	case "fail":
		sp.plan.Pay, sp.plan.PayLimit = []*string{nil}, 1
	case "pending":
		sp.plan.Pay, sp.plan.PayLimit = []*string{nil}, 1
		info.pend = "pending"
	case "fail1":
		sp.plan.Pay = []*string{nil}
	case "pending1":
		sp.plan.Pay = []*string{nil}
		info.pend = "pending"
	}
	for i := 0; i < m.spendN; i++ {
		sp.plan.Spend = append(sp.plan.Spend, nil)
	}
	if m.storeN > 0 {
		sp.plan.Store = nil
		for i := 1; i < m.storeN; i++ {
			sp.plan.Store = append(sp.plan.Store, true)
		}
		sp.plan.Store = append(sp.plan.Store, false)
	}
	switch m.validate {
	case "fail":
		sp.plan.Validate = []*bool{boolp(false)}
	case "err":
		sp.plan.Validate = []*bool{nil}
	}
	if m.recover == "fail" {
		sp.plan.RecoverPay = []*string{nil}
	}
	if m.sendFail {
		sp.plan.Send = []bool{false}
	}
	if m.openingFail {
		sp.plan.CreateOpening = []*OpeningRes{nil}
	}
	if m.heightFail {
		sp.plan.Height = []*uint32{nil}
	}
	if len(m.tips) > 0 {
		if mm := sc.current(); mm != nil && mm.Data != nil {
			sp.plan.Height = nil
			for _, off := range m.tips {
				h := int64(mm.Data.StartingBlockHeight) + off
				if h < 0 {
					h = 0
				}
				sp.plan.Height = append(sp.plan.Height, u32p(uint32(h)))
			}
		}
	}
	if m.retries > 0 {
		if mm := sc.current(); mm != nil {
			mm.VerifSetRetries(m.retries)
		}
	}
	crashMu.Lock()
	crashLast[sc] = info
	crashMu.Unlock()
	if m.crashAt <= 0 {
		return
	}
	orig := sp.call
	k := m.crashAt
	restart := sp.restart
	sp.call = func() (err error) {
		e := sc.env
		e.mu.Lock()
		e.crashAt = k
		e.crashExit = restart // RecoverSwaps runs the machine on its own goroutine
		e.mu.Unlock()
		died := func() {
			// the process is gone: remember fresh values that existed only in memory, drop every object,
			// start a new process on the same store (without recovery)
			if mm := sc.current(); mm != nil && mm.Data != nil && mm.Data.BlindingKeyHex != "" && mm.Data.BlindingKeyHex != sc.prevBlind {
				e.mu.Lock()
				e.served.Blind = append(e.served.Blind, mm.Data.BlindingKeyHex)
				e.mu.Unlock()
				sc.prevBlind = mm.Data.BlindingKeyHex
			}
			e.mu.Lock()
			e.crashAt, e.crashExit = 0, false
			info.crashed, info.count = true, len(e.effects)
			e.mu.Unlock()
			if rerr := sc.restartNode(); rerr != nil {
				err = rerr
			}
			sc.held = nil
		}
		defer func() {
			if rec := recover(); rec != nil {
				if _, ok := rec.(crashSignal); !ok {
					panic(rec)
				}
				died()
				return
			}
			e.mu.Lock()
			hit := e.crashAt > 0 && e.nEffects >= e.crashAt
			e.crashAt, e.crashExit = 0, false
			e.mu.Unlock()
			if hit {
				died()
			}
		}()
		return orig()
	}
}

var preStateRe = regexp.MustCompile(`^\(mkMachine "[^"]*"%string \d+ \d+ "([^"]*)"%string`)

// crashObserver: one term `mkCObs crash pend` per step.  crash = Some c: the process died after c effects.
// pend = for each RebalancePayment attempt of the step, whether a FAILED attempt left its HTLC in flight (a label
// of the environment: the node sees the same error either way).
func crashObserver(sc *Scen, rec *stepRecord) string {
	crashMu.Lock()
	info := crashLast[sc]
	delete(crashLast, sc)
	crashMu.Unlock()
	crash := "None"
	if info != nil && info.crashed {
		crash = fmt.Sprintf("(Some %d%%nat)", info.count)
		rec.JS["crash"] = info.count
		rec.Kind = "crash:" + rec.Kind
	}
	pend := []string{}
	pendJS := []bool{}
	n := 0
	for _, e := range rec.Effects {
		if !strings.HasPrefix(e, "EPayClaim ") {
			continue
		}
		failed := strings.HasSuffix(e, " None")
		p := false
		if failed {
			if info != nil && info.set {
				p = info.pend == "pending"
			} else if !sc.clean {
				// random scenarios: a deterministic third of the failed attempts is labelled "still pending"
				h := fnv.New32a()
				h.Write([]byte(fmt.Sprintf("%s#%d", e, n)))
				p = h.Sum32()%3 == 0
			}
		}
		pend = append(pend, CoqBool(p))
		pendJS = append(pendJS, p)
		n++
	}
	if len(pendJS) > 0 {
		rec.JS["pend"] = pendJS
	}
	if m := preStateRe.FindStringSubmatch(rec.Pre); m != nil {
		rec.JS["state_before"] = m[1]
	}
	for _, e := range rec.Effects {
		if strings.HasPrefix(e, "ESend ") && strings.Contains(e, "(MCoop ") {
			rec.JS["coop_sent"] = true
		}
		if strings.HasPrefix(e, "EPersist ") && strings.HasSuffix(e, " false") {
			rec.JS["store_failed"] = true
		}
	}
	return fmt.Sprintf("(mkCObs %s %s)", crash, CoqList(pend))
}
