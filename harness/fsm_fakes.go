package main

// Fakes for the service interfaces of swap/services.go. All fakes of one
// scenario share a *Env: the plan of answers for the current step, the record
// of answers actually served (printed as the Coq `world`), and the ordered
// effect log (printed as `list effect`).

import (
	"crypto/sha256"
	"encoding/hex"
	"encoding/json"
	"errors"
	"fmt"
	"runtime"
	"strings"
	"sync"
	"time"

	"github.com/elementsproject/peerswap/messages"
	"github.com/elementsproject/peerswap/swap"
)

type DecodeRes struct {
	Hash string
	Msat uint64
	Cltv int64
}

type OpeningRes struct {
	Hex  string
	Txid string
	Vout uint32
}

// Plan: overrides for the answers of the current step, per kind, consumed in
// order; when a kind's plan is exhausted the default (success) answer is used.
type Plan struct {
	Height        []*uint32
	Send          []bool
	Store         []bool
	Pay           []*string
	RecoverPay    []*string
	PayFee        []*string
	MkInvoice     []*string
	FeeEst        []*uint64
	Balance       []*uint64
	Spendable     []*uint64
	Probe         []*bool
	CreateOpening []*OpeningRes
	Spend         []*string
	Script        []bool
	Validate      []*bool
	AddSender     []bool
	AddSusp       []bool
	PayLimit      int // stop serving pay attempts after this many (0 = unlimited): later calls block until the loop times out
}

// Served: the answers given during the current step (the Coq world).
type Served struct {
	Height        []*uint32
	Send          []bool
	Store         []bool
	Pay           []*string
	RecoverPay    []*string
	PayFee        []*string
	MkInvoice     []*string
	FeeEst        []*uint64
	Balance       []*uint64
	Spendable     []*uint64
	Probe         []*bool
	CreateOpening []*OpeningRes
	Spend         []*string
	Script        []bool
	Validate      []*bool
	AddSender     []bool
	AddSusp       []bool
	Preimage      [][2]string
	Blind         []string
}

type Env struct {
	mu sync.Mutex
	r  *Rng

	// configuration (constant over a scenario unless the scenario changes it between steps)
	SwapsAllowed    bool
	LiquidEnabled   bool
	BitcoinEnabled  bool
	MinAmountMsat   uint64
	PeerAllowed     bool
	PeerSuspicious  bool
	Chain           string // "btc" / "lbtc": which wallet/watcher pair is consulted
	BtcNetwork      string
	LbtcAsset       string
	CsvBtc, CsvLbtc uint32
	CurHeight       uint32 // default answer of GetBlockHeight
	lastTip         uint32 // last height answered by GetBlockHeight
	Decode          map[string]DecodeRes

	plan       Plan
	served     Served
	effects    []string        // Coq terms
	effJSON    []interface{}   // readable form
	sentLog    []sentMsg       // raw messages handed to the messenger during the current step (for step observers)
	precheck   map[string]bool // kinds answered permissively and not recorded (service-level pre-checks)
	counter    int
	svc        SvcPlan
	suspAtStep bool
	crashAt    int // >0: panic when the crashAt-th effect is about to be recorded... (0 = never)
	nEffects   int
	// additive (crash steps): when set, the simulated crash ends the calling goroutine (runtime.Goexit) instead of
	// panicking, for entry points that run the machine on a goroutine of their own (RecoverSwaps)
	crashExit bool
}

// SvcPlan: answers for the service-level pre-checks (used by the svc harness); nil fields = permissive defaults
type SvcPlan struct {
	CanSpendErr   bool
	Spendable     **uint64 // non-nil: answer (inner nil = error)
	Receivable    **uint64
	Probe         **bool
	Balance       *uint64
	BlockNetwork  chan struct{} // non-nil: wallet.GetNetwork()/GetAsset() blocks until closed (schedule control)
	NetworkCalled chan struct{} // closed when the blocking call has been reached
}

type crashSignal struct{}

func (e *Env) beginStep(p Plan, precheck ...string) {
	e.mu.Lock()
	defer e.mu.Unlock()
	e.plan = p
	e.served = Served{}
	e.effects = nil
	e.effJSON = nil
	e.sentLog = nil
	e.precheck = map[string]bool{}
	for _, k := range precheck {
		e.precheck[k] = true
	}
	e.crashAt = 0
	e.nEffects = 0
}

func (e *Env) effect(term string, js interface{}) {
	e.mu.Lock()
	e.nEffects++
	if e.crashAt > 0 && e.nEffects >= e.crashAt {
		e.mu.Unlock()
		if e.crashExit {
			runtime.Goexit()
		}
		panic(crashSignal{})
	}
	e.effects = append(e.effects, term)
	e.effJSON = append(e.effJSON, js)
	e.mu.Unlock()
}

func (e *Env) fresh(prefix string) string {
	e.counter++
	return fmt.Sprintf("%s%d", prefix, e.counter)
}

func strp(s string) *string { return &s }
func u64p(v uint64) *uint64 { return &v }
func u32p(v uint32) *uint32 { return &v }
func boolp(b bool) *bool    { return &b }

func hashOf(preimageHex string) string {
	b, err := hex.DecodeString(preimageHex)
	if err != nil {
		return ""
	}
	h := sha256.Sum256(b)
	return hex.EncodeToString(h[:])
}

func randHex(r *Rng, n int) string {
	b := make([]byte, n)
	for i := range b {
		b[i] = byte(r.U64())
	}
	return hex.EncodeToString(b)
}

var errFake = errors.New("injected failure")

// ---- store wrapper (real bbolt store underneath) ----
type fakeStore struct {
	env   *Env
	inner swap.Store
}

func (s *fakeStore) UpdateData(sm *swap.SwapStateMachine) error {
	e := s.env
	e.mu.Lock()
	ok := true
	if len(e.plan.Store) > 0 {
		ok = e.plan.Store[0]
		e.plan.Store = e.plan.Store[1:]
	}
	e.served.Store = append(e.served.Store, ok)
	e.mu.Unlock()
	e.effect(fmt.Sprintf("EPersist %s %s %s", CoqStr(string(sm.Current)), coqData(sm.Data, string(sm.Current)), CoqBool(ok)),
		map[string]interface{}{"e": "Persist", "state": string(sm.Current), "ok": ok})
	if !ok {
		return errFake
	}
	return s.inner.UpdateData(sm)
}
func (s *fakeStore) GetData(id string) (*swap.SwapStateMachine, error) { return s.inner.GetData(id) }
func (s *fakeStore) ListAll() ([]*swap.SwapStateMachine, error)        { return s.inner.ListAll() }
func (s *fakeStore) ListAllByPeer(p string) ([]*swap.SwapStateMachine, error) {
	return s.inner.ListAllByPeer(p)
}

// ---- requested swaps store ----
type fakeReqStore struct{ env *Env }

func (s *fakeReqStore) Add(id string, r swap.RequestedSwap) error {
	s.env.effect("ERequestedSwapLog", map[string]interface{}{"e": "RequestedSwapLog", "reason": r.RejectionReason})
	return nil
}
func (s *fakeReqStore) Get(id string) ([]swap.RequestedSwap, error) { return nil, nil }
func (s *fakeReqStore) GetAll() (map[string][]swap.RequestedSwap, error) {
	return map[string][]swap.RequestedSwap{}, nil
}

// ---- messenger ----
type fakeMessenger struct {
	env     *Env
	handler func(peerId string, msgType string, payload []byte) error
	Sent    []sentMsg
}
type sentMsg struct {
	Peer    string
	Type    int
	Payload []byte
}

func (m *fakeMessenger) SendMessage(peerId string, msg []byte, msgType int) error {
	e := m.env
	e.mu.Lock()
	ok := true
	if len(e.plan.Send) > 0 {
		ok = e.plan.Send[0]
		e.plan.Send = e.plan.Send[1:]
	}
	e.served.Send = append(e.served.Send, ok)
	m.Sent = append(m.Sent, sentMsg{peerId, msgType, append([]byte{}, msg...)})
	e.sentLog = append(e.sentLog, sentMsg{peerId, msgType, append([]byte{}, msg...)})
	e.mu.Unlock()
	e.effect(fmt.Sprintf("ESend %s %s", CoqStr(peerId), coqWire(msg, msgType)),
		map[string]interface{}{"e": "Send", "peer": peerId, "type": msgType, "ok": ok})
	if !ok {
		return errFake
	}
	return nil
}
func (m *fakeMessenger) AddMessageHandler(f func(peerId string, msgType string, payload []byte) error) {
	m.handler = f
}

// ---- messenger manager: records start/stop, neutralises the retry goroutine ----
type fakeManager struct {
	env  *Env
	mu   sync.Mutex
	Live map[string]bool
}

func (m *fakeManager) AddSender(id string, ms messages.StoppableMessenger) error {
	e := m.env
	e.mu.Lock()
	ok := true
	if len(e.plan.AddSender) > 0 {
		ok = e.plan.AddSender[0]
		e.plan.AddSender = e.plan.AddSender[1:]
	}
	e.served.AddSender = append(e.served.AddSender, ok)
	e.mu.Unlock()
	if !ok {
		return errFake
	}
	ms.Stop() // the retry goroutine exits at once; retransmission timing is C22's own harness
	m.mu.Lock()
	if m.Live == nil {
		m.Live = map[string]bool{}
	}
	m.Live[id] = true
	m.mu.Unlock()
	e.effect("ERetransStart", map[string]interface{}{"e": "RetransStart"})
	return nil
}
func (m *fakeManager) RemoveSender(id string) {
	m.mu.Lock()
	delete(m.Live, id)
	m.mu.Unlock()
	m.env.effect("ERetransStop", map[string]interface{}{"e": "RetransStop"})
}

// ---- policy ----
type fakePolicy struct{ env *Env }

func (p *fakePolicy) IsPeerAllowed(peer string) bool    { return p.env.PeerAllowed }
func (p *fakePolicy) IsPeerSuspicious(peer string) bool { return p.env.PeerSuspicious }
func (p *fakePolicy) AddToSuspiciousPeerList(pubkey string) error {
	e := p.env
	e.mu.Lock()
	ok := true
	if len(e.plan.AddSusp) > 0 {
		ok = e.plan.AddSusp[0]
		e.plan.AddSusp = e.plan.AddSusp[1:]
	}
	e.served.AddSusp = append(e.served.AddSusp, ok)
	e.mu.Unlock()
	e.effect(fmt.Sprintf("ESuspicious %s", CoqStr(pubkey)), map[string]interface{}{"e": "Suspicious", "peer": pubkey})
	if !ok {
		return errFake
	}
	e.PeerSuspicious = true
	return nil
}
func (p *fakePolicy) GetReserveOnchainMsat() uint64 { return 0 }
func (p *fakePolicy) GetMinSwapAmountMsat() uint64  { return p.env.MinAmountMsat }
func (p *fakePolicy) NewSwapsAllowed() bool         { return p.env.SwapsAllowed }

// ---- lightning ----
type fakeLightning struct {
	env       *Env
	payCb     func(swapId string, invoiceType swap.InvoiceType)
	Notifiers []string
}

func (l *fakeLightning) DecodePayreq(payreq string) (string, uint64, int64, error) {
	l.env.mu.Lock()
	d, ok := l.env.Decode[payreq]
	l.env.mu.Unlock()
	if !ok {
		return "", 0, 0, errFake
	}
	return d.Hash, d.Msat, d.Cltv, nil
}
func (l *fakeLightning) PayInvoice(payreq string) (string, error) { return "", errFake }
func (l *fakeLightning) GetPayreq(msat uint64, preimage string, swapId string, memo string, it swap.InvoiceType, expiry, cltv uint64) (string, error) {
	e := l.env
	e.mu.Lock()
	var ans *string
	if len(e.plan.MkInvoice) > 0 {
		ans = e.plan.MkInvoice[0]
		e.plan.MkInvoice = e.plan.MkInvoice[1:]
	} else {
		ans = strp(e.fresh("lninv"))
	}
	e.served.MkInvoice = append(e.served.MkInvoice, ans)
	e.served.Preimage = append(e.served.Preimage, [2]string{preimage, hashOf(preimage)})
	if ans != nil {
		e.Decode[*ans] = DecodeRes{Hash: hashOf(preimage), Msat: msat, Cltv: int64(cltv)}
	}
	e.mu.Unlock()
	kind := "PKClaim"
	if it == swap.INVOICE_FEE {
		kind = "PKFee"
	}
	e.effect(fmt.Sprintf("EMkInvoice %s %s %s %s %s", kind, CoqZu(msat), CoqStr(preimage), CoqZu(expiry), CoqZu(cltv)),
		map[string]interface{}{"e": "MkInvoice", "kind": kind, "msat": msat, "expiry": expiry, "cltv": cltv})
	if ans == nil {
		return "", errFake
	}
	return *ans, nil
}
func (l *fakeLightning) PayInvoiceViaChannel(payreq string, channel string) (string, error) {
	e := l.env
	e.mu.Lock()
	var ans *string
	if len(e.plan.PayFee) > 0 {
		ans = e.plan.PayFee[0]
		e.plan.PayFee = e.plan.PayFee[1:]
	} else {
		ans = strp(randHex(e.r, 32))
	}
	e.served.PayFee = append(e.served.PayFee, ans)
	e.mu.Unlock()
	e.effect(fmt.Sprintf("EPayFee %s %s %s", CoqStr(payreq), CoqStr(channel), coqOptStr(ans)),
		map[string]interface{}{"e": "PayFee", "payreq": payreq, "scid": channel, "ok": ans != nil})
	if ans == nil {
		return "", errFake
	}
	return *ans, nil
}
func (l *fakeLightning) AddPaymentCallback(f func(swapId string, invoiceType swap.InvoiceType)) {
	l.payCb = f
}
func (l *fakeLightning) AddPaymentNotifier(swapId string, payreq string, it swap.InvoiceType) {
	kind := "PKClaim"
	if it == swap.INVOICE_FEE {
		kind = "PKFee"
	}
	l.env.effect(fmt.Sprintf("ENotifier %s %s", CoqStr(payreq), kind), map[string]interface{}{"e": "Notifier", "payreq": payreq, "kind": kind})
}
func (l *fakeLightning) RebalancePayment(payreq string, channel string, maxTotal uint32) (string, error) {
	e := l.env
	e.mu.Lock()
	if e.plan.PayLimit > 0 && len(e.served.Pay) >= e.plan.PayLimit {
		// plan says: no further attempt resolves before the loop's own timeout
		e.mu.Unlock()
		time.Sleep(3500 * time.Millisecond)
		return "", errFake
	}
	var ans *string
	if len(e.plan.Pay) > 0 {
		ans = e.plan.Pay[0]
		e.plan.Pay = e.plan.Pay[1:]
	} else {
		ans = strp(e.payPreimage(payreq))
	}
	e.served.Pay = append(e.served.Pay, ans)
	tip := e.lastTip
	e.mu.Unlock()
	e.effect(fmt.Sprintf("EPayClaim %s %s %s %s %s", CoqStr(payreq), CoqStr(channel), CoqZu(uint64(maxTotal)), CoqZu(uint64(tip)), coqOptStr(ans)),
		map[string]interface{}{"e": "PayClaim", "payreq": payreq, "scid": channel, "max_total_cltv": maxTotal, "tip": tip, "ok": ans != nil})
	if ans == nil {
		return "", errFake
	}
	return *ans, nil
}

// payPreimage: a 32-byte preimage (hex) standing for "the preimage of this invoice"
func (e *Env) payPreimage(payreq string) string {
	h := sha256.Sum256([]byte("preimage-of-" + payreq))
	return hex.EncodeToString(h[:])
}

func (l *fakeLightning) RecoverClaimPayment(payreq string) (string, error) {
	e := l.env
	e.mu.Lock()
	var ans *string
	if len(e.plan.RecoverPay) > 0 {
		ans = e.plan.RecoverPay[0]
		e.plan.RecoverPay = e.plan.RecoverPay[1:]
	} else {
		ans = strp(e.payPreimage(payreq))
	}
	e.served.RecoverPay = append(e.served.RecoverPay, ans)
	e.mu.Unlock()
	e.effect(fmt.Sprintf("ERecoverPay %s %s", CoqStr(payreq), coqOptStr(ans)),
		map[string]interface{}{"e": "RecoverPay", "payreq": payreq, "ok": ans != nil})
	if ans == nil {
		return "", errFake
	}
	return *ans, nil
}
func (l *fakeLightning) CanSpend(amountMsat uint64) error {
	if l.env.svc.CanSpendErr {
		return errFake
	}
	return nil
}
func (l *fakeLightning) Implementation() string { return "FAKE" }
func (l *fakeLightning) SpendableMsat(scid string) (uint64, error) {
	e := l.env
	e.mu.Lock()
	defer e.mu.Unlock()
	if e.precheck["Spendable"] {
		if e.svc.Spendable != nil {
			if *e.svc.Spendable == nil {
				return 0, errFake
			}
			return **e.svc.Spendable, nil
		}
		return 1 << 62, nil
	}
	var ans *uint64
	if len(e.plan.Spendable) > 0 {
		ans = e.plan.Spendable[0]
		e.plan.Spendable = e.plan.Spendable[1:]
	} else {
		ans = u64p(1 << 62)
	}
	e.served.Spendable = append(e.served.Spendable, ans)
	if ans == nil {
		return 0, errFake
	}
	return *ans, nil
}
func (l *fakeLightning) ReceivableMsat(scid string) (uint64, error) {
	e := l.env
	if e.svc.Receivable != nil {
		if *e.svc.Receivable == nil {
			return 0, errFake
		}
		return **e.svc.Receivable, nil
	}
	return 1 << 62, nil
}
func (l *fakeLightning) ProbePayment(scid string, amountMsat uint64) (bool, string, error) {
	e := l.env
	e.mu.Lock()
	defer e.mu.Unlock()
	if e.precheck["Probe"] {
		if e.svc.Probe != nil {
			if *e.svc.Probe == nil {
				return false, "", errFake
			}
			return **e.svc.Probe, "probe failed", nil
		}
		return true, "", nil
	}
	var ans *bool
	if len(e.plan.Probe) > 0 {
		ans = e.plan.Probe[0]
		e.plan.Probe = e.plan.Probe[1:]
	} else {
		ans = boolp(true)
	}
	e.served.Probe = append(e.served.Probe, ans)
	if ans == nil {
		return false, "", errFake
	}
	return *ans, "probe failed", nil
}

// ---- chain services: one fake per chain, all three interfaces ----
type fakeChain struct {
	env    *Env
	chain  string
	confCb func(swapId string, txHex string, err error) error
	csvCb  func(swapId string) error
}

// TxWatcher
func (c *fakeChain) AddWaitForConfirmationTx(swapID, txID string, vout, start, window uint32, script []byte) {
	c.env.effect(fmt.Sprintf("EWatchConf %s %s %s %s", CoqStr(txID), CoqZu(uint64(vout)), CoqZu(uint64(start)), CoqZu(uint64(window))),
		map[string]interface{}{"e": "WatchConf", "txid": txID, "vout": vout, "start": start, "window": window})
}
func (c *fakeChain) AddWaitForCsvTx(swapID, txID string, vout, start, csv uint32, script []byte) {
	c.env.effect(fmt.Sprintf("EWatchCsv %s %s %s %s", CoqStr(txID), CoqZu(uint64(vout)), CoqZu(uint64(start)), CoqZu(uint64(csv))),
		map[string]interface{}{"e": "WatchCsv", "txid": txID, "vout": vout, "start": start, "csv": csv})
}
func (c *fakeChain) AddConfirmationCallback(f func(swapId string, txHex string, err error) error) {
	c.confCb = f
}
func (c *fakeChain) AddCsvCallback(f func(swapId string) error) { c.csvCb = f }
func (c *fakeChain) GetBlockHeight() (uint32, error) {
	e := c.env
	e.mu.Lock()
	defer e.mu.Unlock()
	var ans *uint32
	if len(e.plan.Height) > 0 {
		ans = e.plan.Height[0]
		e.plan.Height = e.plan.Height[1:]
	} else {
		ans = u32p(e.CurHeight)
	}
	if ans != nil {
		e.lastTip = *ans
	}
	if e.plan.PayLimit > 0 && len(e.served.Pay) >= e.plan.PayLimit {
		// height polls after the last served payment attempt are not part of the world
		if ans == nil {
			return 0, errFake
		}
		return *ans, nil
	}
	e.served.Height = append(e.served.Height, ans)
	if ans == nil {
		return 0, errFake
	}
	return *ans, nil
}
func (c *fakeChain) StartWatchingTxs() error { return nil }

// Validator
func (c *fakeChain) TxIdFromHex(txHex string) (string, error) { return "", nil }
func (c *fakeChain) ValidateTx(p *swap.OpeningParams, txHex string) (bool, error) {
	e := c.env
	e.mu.Lock()
	var ans *bool
	if len(e.plan.Validate) > 0 {
		ans = e.plan.Validate[0]
		e.plan.Validate = e.plan.Validate[1:]
	} else {
		ans = boolp(true)
	}
	e.served.Validate = append(e.served.Validate, ans)
	e.mu.Unlock()
	bk := ""
	if p.BlindingKey != nil {
		bk = hex.EncodeToString(p.BlindingKey.Serialize())
	}
	res := "None"
	if ans != nil {
		res = "(Some " + CoqBool(*ans) + ")"
	}
	e.effect(fmt.Sprintf("EValidate %s %s %s %s %s %s %s %s", CoqStr(p.TakerPubkey), CoqStr(p.MakerPubkey), CoqStr(p.ClaimPaymentHash),
		CoqZu(p.Amount), CoqZu(uint64(p.CSV)), CoqStr(bk), CoqStr(txHex), res),
		map[string]interface{}{"e": "Validate", "taker": p.TakerPubkey, "maker": p.MakerPubkey, "hash": p.ClaimPaymentHash, "amount": p.Amount, "csv": p.CSV, "hex": txHex})
	if ans == nil {
		return false, errFake
	}
	return *ans, nil
}
func (c *fakeChain) GetCSVHeight() uint32 {
	if c.chain == "btc" {
		return c.env.CsvBtc
	}
	return c.env.CsvLbtc
}

// Wallet
func (c *fakeChain) SetLabel(txID, address, label string) error { return nil }
func (c *fakeChain) CreateOpeningTransaction(p *swap.OpeningParams) (string, string, string, uint64, uint32, error) {
	e := c.env
	e.mu.Lock()
	var ans *OpeningRes
	if len(e.plan.CreateOpening) > 0 {
		ans = e.plan.CreateOpening[0]
		e.plan.CreateOpening = e.plan.CreateOpening[1:]
	} else {
		ans = &OpeningRes{Hex: "0200" + randHex(e.r, 20), Txid: randHex(e.r, 32), Vout: uint32(e.r.Intn(3))}
	}
	e.served.CreateOpening = append(e.served.CreateOpening, ans)
	e.mu.Unlock()
	res := "None"
	if ans != nil {
		res = fmt.Sprintf("(Some (mkOpening %s %s %s))", CoqStr(ans.Hex), CoqStr(ans.Txid), CoqZu(uint64(ans.Vout)))
	}
	e.effect(fmt.Sprintf("EBroadcastOpening %s %s %s %s %s %s %s", CoqStr(p.TakerPubkey), CoqStr(p.MakerPubkey), CoqStr(p.ClaimPaymentHash),
		CoqZu(p.Amount), CoqZu(uint64(p.CSV)), CoqBool(p.BlindingKey != nil), res),
		map[string]interface{}{"e": "BroadcastOpening", "amount": p.Amount, "csv": p.CSV, "ok": ans != nil})
	if ans == nil {
		return "", "", "", 0, 0, errFake
	}
	return ans.Hex, "addr", ans.Txid, 0, ans.Vout, nil
}
func (c *fakeChain) spend(kind string) (string, string, string, error) {
	e := c.env
	e.mu.Lock()
	var ans *string
	if len(e.plan.Spend) > 0 {
		ans = e.plan.Spend[0]
		e.plan.Spend = e.plan.Spend[1:]
	} else {
		ans = strp(randHex(e.r, 32))
	}
	e.served.Spend = append(e.served.Spend, ans)
	e.mu.Unlock()
	e.effect(fmt.Sprintf("EBroadcastSpend %s %s", kind, coqOptStr(ans)), map[string]interface{}{"e": "BroadcastSpend", "kind": kind, "ok": ans != nil})
	if ans == nil {
		return "", "", "", errFake
	}
	return *ans, "hex", "addr", nil
}
func (c *fakeChain) CreatePreimageSpendingTransaction(p *swap.OpeningParams, cp *swap.ClaimParams) (string, string, string, error) {
	return c.spend("SKPreimage")
}
func (c *fakeChain) CreateCsvSpendingTransaction(p *swap.OpeningParams, cp *swap.ClaimParams) (string, string, string, error) {
	return c.spend("SKCsv")
}
func (c *fakeChain) CreateCoopSpendingTransaction(p *swap.OpeningParams, cp *swap.ClaimParams, s swap.Signer) (string, string, string, error) {
	return c.spend("SKCoop")
}
func (c *fakeChain) GetOutputScript(p *swap.OpeningParams) ([]byte, error) {
	e := c.env
	e.mu.Lock()
	defer e.mu.Unlock()
	ok := true
	if len(e.plan.Script) > 0 {
		ok = e.plan.Script[0]
		e.plan.Script = e.plan.Script[1:]
	}
	e.served.Script = append(e.served.Script, ok)
	if !ok {
		return nil, errFake
	}
	return []byte{0, 32}, nil
}
func (c *fakeChain) NewAddress() (string, error)   { return "addr", nil }
func (c *fakeChain) GetRefundFee() (uint64, error) { return 100, nil }
func (c *fakeChain) GetFlatOpeningTXFee() (uint64, error) {
	e := c.env
	e.mu.Lock()
	defer e.mu.Unlock()
	if e.precheck["FeeEst"] {
		return 300, nil
	}
	var ans *uint64
	if len(e.plan.FeeEst) > 0 {
		ans = e.plan.FeeEst[0]
		e.plan.FeeEst = e.plan.FeeEst[1:]
	} else {
		ans = u64p(300)
	}
	e.served.FeeEst = append(e.served.FeeEst, ans)
	if ans == nil {
		return 0, errFake
	}
	return *ans, nil
}
func (c *fakeChain) GetAsset() string {
	if c.chain == "lbtc" {
		return c.env.LbtcAsset
	}
	return ""
}
func (c *fakeChain) GetNetwork() string {
	if ch := c.env.svc.BlockNetwork; ch != nil && c.chain == "btc" {
		if c.env.svc.NetworkCalled != nil {
			close(c.env.svc.NetworkCalled)
			c.env.svc.NetworkCalled = nil
		}
		<-ch
	}
	if c.chain == "btc" {
		return c.env.BtcNetwork
	}
	return ""
}
func (c *fakeChain) GetOnchainBalance() (uint64, error) {
	e := c.env
	e.mu.Lock()
	defer e.mu.Unlock()
	if e.precheck["Balance"] {
		if e.svc.Balance != nil {
			return *e.svc.Balance, nil
		}
		return 1 << 60, nil
	}
	var ans *uint64
	if len(e.plan.Balance) > 0 {
		ans = e.plan.Balance[0]
		e.plan.Balance = e.plan.Balance[1:]
	} else {
		ans = u64p(1 << 60)
	}
	e.served.Balance = append(e.served.Balance, ans)
	if ans == nil {
		return 0, errFake
	}
	return *ans, nil
}

// ---- Coq printers for swap data ----

func coqOptStr(s *string) string {
	if s == nil {
		return "None"
	}
	return "(Some " + CoqStr(*s) + ")"
}

func idStr(id *swap.SwapId) string {
	if id == nil {
		return ""
	}
	return id.String()
}

func coqReq(v uint8, id *swap.SwapId, network, asset, scid string, amount uint64, pubkey string, limit int64) string {
	return fmt.Sprintf("(mkReq %d %s %s %s %s %s %s %s)", v, CoqStr(idStr(id)), CoqStr(network), CoqStr(asset), CoqStr(scid), CoqZu(amount), CoqStr(pubkey), CoqZ(limit))
}
func coqInReq(r *swap.SwapInRequestMessage) string {
	return coqReq(r.ProtocolVersion, r.SwapId, r.Network, r.Asset, r.Scid, r.Amount, r.Pubkey, r.PremiumLimit)
}
func coqOutReq(r *swap.SwapOutRequestMessage) string {
	return coqReq(r.ProtocolVersion, r.SwapId, r.Network, r.Asset, r.Scid, r.Amount, r.Pubkey, r.PremiumLimit)
}
func coqInAgr(a *swap.SwapInAgreementMessage) string {
	return fmt.Sprintf("(mkInAgr %d %s %s %s)", a.ProtocolVersion, CoqStr(idStr(a.SwapId)), CoqStr(a.Pubkey), CoqZ(a.Premium))
}
func coqOutAgr(a *swap.SwapOutAgreementMessage) string {
	return fmt.Sprintf("(mkOutAgr %d %s %s %s %s)", a.ProtocolVersion, CoqStr(idStr(a.SwapId)), CoqStr(a.Pubkey), CoqStr(a.Payreq), CoqZ(a.Premium))
}
func coqOtb(o *swap.OpeningTxBroadcastedMessage) string {
	return fmt.Sprintf("(mkOtb %s %s %s %s %s)", CoqStr(idStr(o.SwapId)), CoqStr(o.Payreq), CoqStr(o.TxId), CoqZu(uint64(o.ScriptOut)), CoqStr(o.BlindingKey))
}

// message texts (cancel reasons) are not modelled: projected to ""
func coqCoop(c *swap.CoopCloseMessage) string {
	return fmt.Sprintf("(mkCoop %s %s %s)", CoqStr(idStr(c.SwapId)), CoqStr(""), CoqStr(c.Privkey))
}
func coqCancel(c *swap.CancelMessage) string {
	return fmt.Sprintf("(mkCancel %s %s)", CoqStr(idStr(c.SwapId)), CoqStr(""))
}

// coqWire decodes real message bytes with the real structs and prints a wire_msg
func coqWire(payload []byte, msgType int) string {
	switch messages.MessageType(msgType) {
	case messages.MESSAGETYPE_SWAPINREQUEST:
		var m swap.SwapInRequestMessage
		if json.Unmarshal(payload, &m) == nil {
			return "(MInReq " + coqInReq(&m) + ")"
		}
	case messages.MESSAGETYPE_SWAPOUTREQUEST:
		var m swap.SwapOutRequestMessage
		if json.Unmarshal(payload, &m) == nil {
			return "(MOutReq " + coqOutReq(&m) + ")"
		}
	case messages.MESSAGETYPE_SWAPINAGREEMENT:
		var m swap.SwapInAgreementMessage
		if json.Unmarshal(payload, &m) == nil {
			return "(MInAgr " + coqInAgr(&m) + ")"
		}
	case messages.MESSAGETYPE_SWAPOUTAGREEMENT:
		var m swap.SwapOutAgreementMessage
		if json.Unmarshal(payload, &m) == nil {
			return "(MOutAgr " + coqOutAgr(&m) + ")"
		}
	case messages.MESSAGETYPE_OPENINGTXBROADCASTED:
		var m swap.OpeningTxBroadcastedMessage
		if json.Unmarshal(payload, &m) == nil {
			return "(MOtb " + coqOtb(&m) + ")"
		}
	case messages.MESSAGETYPE_CANCELED:
		var m swap.CancelMessage
		if json.Unmarshal(payload, &m) == nil {
			return "(MCancel " + coqCancel(&m) + ")"
		}
	case messages.MESSAGETYPE_COOPCLOSE:
		var m swap.CoopCloseMessage
		if json.Unmarshal(payload, &m) == nil {
			return "(MCoop " + coqCoop(&m) + ")"
		}
	}
	return "(MCancel (mkCancel \"UNDECODABLE\" \"\"))"
}

func coqData(d *swap.SwapData, fsmState string) string {
	opt := func(ok bool, s func() string) string {
		if !ok {
			return "None"
		}
		return "(Some " + s() + ")"
	}
	next := "None"
	if d.NextMessage != nil {
		next = "(Some " + coqWire(d.NextMessage, d.NextMessageType) + ")"
	}
	parts := []string{
		opt(d.SwapInRequest != nil, func() string { return coqInReq(d.SwapInRequest) }),
		opt(d.SwapInAgreement != nil, func() string { return coqInAgr(d.SwapInAgreement) }),
		opt(d.SwapOutRequest != nil, func() string { return coqOutReq(d.SwapOutRequest) }),
		opt(d.SwapOutAgreement != nil, func() string { return coqOutAgr(d.SwapOutAgreement) }),
		opt(d.OpeningTxBroadcasted != nil, func() string { return coqOtb(d.OpeningTxBroadcasted) }),
		opt(d.CoopClose != nil, func() string { return coqCoop(d.CoopClose) }),
		opt(d.Cancel != nil, func() string { return coqCancel(d.Cancel) }),
		CoqStr(d.PeerNodeId), CoqStr(d.InitiatorNodeId),
		CoqStr(hex.EncodeToString(d.PrivkeyBytes)),
		CoqStr(d.FeePreimage), CoqZu(d.OpeningTxFee), CoqStr(d.OpeningTxHex),
		CoqZu(uint64(d.StartingBlockHeight)), CoqBool(d.StartingBlockHeightSet),
		CoqStr(d.ClaimTxId), CoqStr(d.ClaimPaymentHash), CoqStr(d.ClaimPreimage),
		CoqStr(d.BlindingKeyHex), next, CoqStr(string(d.FSMState)),
	}
	return "(mkData " + strings.Join(parts, " ") + ")"
}

func coqMachine(sm *swap.SwapStateMachine, retries int) string {
	return fmt.Sprintf("(mkMachine %s %d %d %s %s %s %d)", CoqStr(idStr(sm.SwapId)), int(sm.Type), int(sm.Role),
		CoqStr(string(sm.Current)), CoqStr(string(sm.Previous)), coqData(sm.Data, string(sm.Data.FSMState)), retries)
}
