package main

// C13: scripted scenarios for `psh fsm` - both taker roles on Liquid, a restart from every
// persisted state, replays (duplicates) of later events, the tip moving between steps so that
// a re-run anchor writer would produce a different height.

func init() {
	registerDirected(
		directed{"out_sender", "lbtc", []string{"start", "tip=anchor+3", "restart", "tip=anchor+5", "out_agreement", "tip=anchor+7", "restart", "otb", "tip=anchor+9", "restart", "tx_confirmed", "restart"}},
		directed{"in_receiver", "lbtc", []string{"request", "tip=anchor+3", "restart", "tip=anchor+5", "otb", "tip=anchor+7", "restart", "tx_confirmed", "restart"}},
		directed{"out_sender", "lbtc", []string{"start", "tip=anchor+2", "out_agreement", "duplicate", "tip=anchor+4", "otb", "duplicate", "tip=anchor+6", "tx_confirmed", "duplicate"}},
		directed{"in_receiver", "lbtc", []string{"request", "tip=anchor+2", "otb", "duplicate", "tip=anchor+4", "restart", "duplicate", "tx_confirmed"}},
		directed{"out_sender", "lbtc", []string{"start", "tip=anchor+2", "out_agreement", "tip=anchor+61", "restart", "otb"}},
		directed{"in_receiver", "lbtc", []string{"request", "tip=anchor+61", "restart", "otb", "timeout"}},
		directed{"in_receiver", "lbtc", []string{"request", "tip=anchor+1", "timeout", "restart", "coop"}},
		directed{"out_sender", "lbtc", []string{"start", "tip=anchor+1", "out_agreement", "cancel", "restart"}},
		directed{"out_sender", "btc", []string{"start", "tip=anchor+3", "restart", "out_agreement", "restart", "otb", "restart", "tx_confirmed"}},
		directed{"in_receiver", "btc", []string{"request", "tip=anchor+3", "restart", "otb", "restart", "tx_confirmed"}},
	)
}
