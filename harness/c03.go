package main

// C03 — claim, coop and CSV-refund transactions the node builds are valid and
// pay it.  Bitcoin part: the REAL clightning / lnd wallet adapters
// (Create{Preimage,Csv,Coop}SpendingTransaction) over the REAL
// onchain.BitcoinOnChain, against fake wallet RPCs.  Every transaction the
// adapters hand over for broadcast is parsed, its signatures are related to the
// BIP-143 digests and it is executed by btcd's script engine against the
// opening output it spends.

import (
	"bytes"
	"crypto/sha256"
	"encoding/hex"
	"errors"
	"flag"
	"fmt"
	"os"
	"strings"

	"github.com/btcsuite/btcd/btcec/v2"
	"github.com/btcsuite/btcd/btcec/v2/ecdsa"
	"github.com/btcsuite/btcd/btcutil"
	"github.com/btcsuite/btcd/chaincfg/chainhash"
	"github.com/btcsuite/btcd/txscript"
	"github.com/btcsuite/btcd/wire"
	"github.com/elementsproject/peerswap/clightning"
	"github.com/elementsproject/peerswap/onchain"
	"github.com/elementsproject/peerswap/swap"
)

// ---------- signers that record what they are asked to sign

type c03SigCall struct {
	who  int // 0: key is the params' taker key, 1: maker key, 2: neither
	hash []byte
	der  []byte
}

type c03Signer struct {
	key   *btcec.PrivateKey
	who   int
	calls *[]c03SigCall
	fail  bool
}

func (s *c03Signer) Sign(hash []byte) (*ecdsa.Signature, error) {
	if s.fail {
		return nil, errors.New("fake signer failure")
	}
	sig := ecdsa.Sign(s.key, hash)
	*s.calls = append(*s.calls, c03SigCall{who: s.who, hash: append([]byte{}, hash...), der: sig.Serialize()})
	return sig, nil
}

// ---------- Coq printers for transactions

func c03CoqOut(o *wire.TxOut) string {
	return fmt.Sprintf("mk_out %s %s", CoqZ(o.Value), coqBytes(o.PkScript))
}

func c03CoqOuts(outs []*wire.TxOut) string {
	xs := make([]string, len(outs))
	for i, o := range outs {
		xs[i] = c03CoqOut(o)
	}
	return CoqList(xs)
}

func c03CoqWitness(wit [][]byte, calls []c03SigCall) string {
	xs := make([]string, len(wit))
	used := map[int]bool{}
	for i, it := range wit {
		xs[i] = "WData " + coqBytes(it)
		// a signature item is attributed to the first not yet attributed Signer call that returned these bytes
		for pass := 0; pass < 2 && strings.HasPrefix(xs[i], "WData"); pass++ {
			for ci, c := range calls {
				if (pass == 1 || !used[ci]) && len(it) == len(c.der)+1 && bytes.Equal(it[:len(c.der)], c.der) {
					xs[i] = fmt.Sprintf("WSigCall %d %d%%N", ci, it[len(it)-1])
					used[ci] = true
					break
				}
			}
		}
	}
	return CoqList(xs)
}

func c03CoqTx(tx *wire.MsgTx, calls []c03SigCall) string {
	ins := make([]string, len(tx.TxIn))
	for i, in := range tx.TxIn {
		ins[i] = fmt.Sprintf("mk_in %s %d%%Z %d%%Z %s", CoqStr(in.PreviousOutPoint.Hash.String()), in.PreviousOutPoint.Index, in.Sequence,
			c03CoqWitness(in.Witness, calls))
	}
	return fmt.Sprintf("(mk_tx %s %s %s %d%%Z)", CoqZ(int64(tx.Version)), CoqList(ins), c03CoqOuts(tx.TxOut), tx.LockTime)
}

func c03JsTx(tx *wire.MsgTx) interface{} {
	ins := []interface{}{}
	for _, in := range tx.TxIn {
		w := []string{}
		for _, it := range in.Witness {
			w = append(w, hex.EncodeToString(it))
		}
		ins = append(ins, map[string]interface{}{"txid": in.PreviousOutPoint.Hash.String(), "vout": in.PreviousOutPoint.Index, "sequence": in.Sequence, "witness": w})
	}
	outs := []interface{}{}
	for _, o := range tx.TxOut {
		outs = append(outs, map[string]interface{}{"value": o.Value, "script": hex.EncodeToString(o.PkScript)})
	}
	return map[string]interface{}{"version": tx.Version, "locktime": tx.LockTime, "inputs": ins, "outputs": outs}
}

// ---------- world

type c03World struct {
	wallet    *c03Wallet
	cln       *c03Cln
	clnClient *clightning.ClightningClient
	dir       string
}

func c03NewWorld() (*c03World, error) {
	dir, err := os.MkdirTemp("", "psh-c03-")
	if err != nil {
		return nil, err
	}
	w := &c03Wallet{}
	w.reset(c03WalletCfg{})
	cln, err := c03StartCln(dir, w)
	if err != nil {
		return nil, err
	}
	return &c03World{wallet: w, cln: cln, dir: dir}, nil
}

func (w *c03World) close() {
	w.cln.stop()
	os.RemoveAll(w.dir)
}

type c03BtcWallet interface {
	CreateOpeningTransaction(swapParams *swap.OpeningParams) (string, string, string, uint64, uint32, error)
	CreatePreimageSpendingTransaction(swapParams *swap.OpeningParams, claimParams *swap.ClaimParams) (string, string, string, error)
	CreateCsvSpendingTransaction(swapParams *swap.OpeningParams, claimParams *swap.ClaimParams) (string, string, string, error)
	CreateCoopSpendingTransaction(swapParams *swap.OpeningParams, claimParams *swap.ClaimParams, takerSigner swap.Signer) (string, string, string, error)
}

// backend 0 = CLN, 1 = LND.  One CLN client (one RPC connection) serves the whole run.
func (w *c03World) adapter(backend int, chain *onchain.BitcoinOnChain) (c03BtcWallet, func(), error) {
	if backend == 0 {
		if w.clnClient == nil {
			cl, err := c03NewClnClient(w.cln, "v24.11", chain)
			if err != nil {
				return nil, nil, err
			}
			w.clnClient = cl
		}
		w.clnClient.VerifSetBitcoinChain(chain)
		return w.clnClient, func() {}, nil
	}
	return c03NewLndClient(w.wallet, chain), func() {}, nil
}

// ---------- generators

func c03RandBytes(r *Rng, n int) []byte {
	b := make([]byte, n)
	for i := range b {
		b[i] = byte(r.U64())
	}
	return b
}

func c03P2wpkh(r *Rng) (string, []byte) {
	a, _ := btcutil.NewAddressWitnessPubKeyHash(c03RandBytes(r, 20), c03Net)
	s, _ := txscript.PayToAddrScript(a)
	return a.EncodeAddress(), s
}

var c03Amounts = []uint64{0, 1, 199, 200, 201, 330, 546, 1000, 10000, 100000, 1 << 24, 1<<31 - 1, 1 << 31, 1<<32 - 1, 1 << 32, 2100000000000000,
	1 << 53, 1<<63 - 1, 1 << 63, 1<<64 - 1}

func c03GenAmount(r *Rng) uint64 {
	switch {
	case r.Chance(12):
		return PickU(r, c03Amounts)
	case r.Chance(10):
		return uint64(r.Range(200, 3000))
	default:
		return uint64(r.Range(10000, 20000000))
	}
}

// fee estimator answers (sat/kw)
func c03GenFees(r *Rng) (eerr bool, est, fb, fl int64) {
	fl = PickI(r, []int64{25, 253, 253, 0})
	fb = PickI(r, []int64{253, 1000, 0, 12500})
	switch r.Intn(10) {
	case 0:
		eerr = true
		est = 0
	case 1:
		est = 0
	case 2:
		est = PickI(r, []int64{1, 24, 25, 26, 252, 253, 254, 1 << 20, 1 << 30, 1 << 40})
	case 3:
		est, fb, fl = 0, 0, 0
	default:
		est = r.Range(253, 30000)
	}
	return
}

type c03Keys struct {
	taker, maker, other *btcec.PrivateKey
}

// layout kinds of the opening transaction
const (
	c03LaySwapOnly = iota
	c03LaySwapFirst
	c03LayChangeFirst
	c03LayEqualChangeFirst
	c03LayThree
	c03LaySwapTwice // two outputs with the swap script and amount
	c03LayNoAmount  // right script, wrong amount
	c03LayNoScript  // right amount, other script only
	c03LayEmpty     // no outputs
	c03LaySplit     // the swap amount on some other script AND the swap script with some other amount
	c03NLayouts
)

var c03LayNames = []string{"swap-only", "swap-first", "change-first", "equal-change-first", "three-outputs", "swap-twice", "wrong-amount", "wrong-script", "no-outputs", "amount-and-script-on-different-outputs"}

func c03GenOpening(r *Rng, lay int, amount uint64, want []byte) *wire.MsgTx {
	tx := wire.NewMsgTx(2)
	nin := 1 + r.Intn(3)
	for i := 0; i < nin; i++ {
		var h chainhash.Hash
		copy(h[:], c03RandBytes(r, 32))
		in := wire.NewTxIn(wire.NewOutPoint(&h, uint32(r.Intn(4))), nil, nil)
		in.Sequence = 0xfffffffd
		in.Witness = wire.TxWitness{c03RandBytes(r, 71), c03RandBytes(r, 33)}
		tx.AddTxIn(in)
	}
	_, chg := c03P2wpkh(r)
	_, chg2 := c03P2wpkh(r)
	other := func() int64 {
		v := r.Range(1000, 5000000)
		if uint64(v) == amount {
			v++
		}
		return v
	}
	swapOut := wire.NewTxOut(int64(amount), want)
	switch lay {
	case c03LaySwapOnly:
		tx.AddTxOut(swapOut)
	case c03LaySwapFirst:
		tx.AddTxOut(swapOut)
		tx.AddTxOut(wire.NewTxOut(other(), chg))
	case c03LayChangeFirst:
		tx.AddTxOut(wire.NewTxOut(other(), chg))
		tx.AddTxOut(swapOut)
	case c03LayEqualChangeFirst:
		tx.AddTxOut(wire.NewTxOut(int64(amount), chg))
		tx.AddTxOut(swapOut)
	case c03LayThree:
		outs := []*wire.TxOut{wire.NewTxOut(other(), chg), wire.NewTxOut(other(), chg2), swapOut}
		k := r.Intn(3)
		outs[k], outs[2] = outs[2], outs[k]
		for _, o := range outs {
			tx.AddTxOut(o)
		}
	case c03LaySwapTwice:
		tx.AddTxOut(wire.NewTxOut(other(), chg))
		tx.AddTxOut(swapOut)
		tx.AddTxOut(wire.NewTxOut(int64(amount), want))
	case c03LayNoAmount:
		tx.AddTxOut(wire.NewTxOut(other(), chg))
		tx.AddTxOut(wire.NewTxOut(int64(amount)+int64(PickI(r, []int64{1, -1, 1000})), want))
	case c03LayNoScript:
		tx.AddTxOut(wire.NewTxOut(int64(amount), chg))
		tx.AddTxOut(wire.NewTxOut(other(), chg2))
	case c03LayEmpty:
	case c03LaySplit:
		dust := int64(PickI(r, []int64{546, 1000, 330}))
		a, b := wire.NewTxOut(int64(amount), chg), wire.NewTxOut(dust, want)
		if r.Bool() {
			a, b = b, a
		}
		tx.AddTxOut(a)
		tx.AddTxOut(b)
		if r.Chance(30) {
			tx.AddTxOut(wire.NewTxOut(other(), chg2))
		}
	}
	return tx
}

// c03SigHash is the BIP-143 digest (SIGHASH_ALL) of input 0 of tx for the given script code and amount.
func c03SigHash(tx *wire.MsgTx, script []byte, amount int64) []byte {
	fetcher := txscript.NewCannedPrevOutputFetcher([]byte{}, amount)
	h, err := txscript.CalcWitnessSigHash(script, txscript.NewTxSigHashes(tx, fetcher), txscript.SigHashAll, tx, 0, amount)
	if err != nil {
		return nil
	}
	return h
}

// c03Engine runs btcd's script engine (standard flags) on input 0 of tx against prev.
func c03Engine(tx *wire.MsgTx, prev *wire.TxOut) bool {
	fetcher := txscript.NewCannedPrevOutputFetcher(prev.PkScript, prev.Value)
	vm, err := txscript.NewEngine(prev.PkScript, tx, 0, txscript.StandardVerifyFlags, nil, txscript.NewTxSigHashes(tx, fetcher), prev.Value, fetcher)
	if err != nil {
		return false
	}
	return vm.Execute() == nil
}

func c03P2wsh(redeem []byte) []byte {
	h := sha256.Sum256(redeem)
	return append([]byte{0x00, 0x20}, h[:]...)
}

// ---------- the Bitcoin spend family

func c03BtcCase(cf *CaseFile, r *Rng, w *c03World, idx int, directed int) error {
	keys := c03Keys{c02RandKey(r), c02RandKey(r), c02RandKey(r)}
	backend := idx % 2
	kind := (idx / 2) % 3 // 0 preimage, 1 csv, 2 coop
	lay := r.Intn(c03NLayouts)
	if r.Chance(55) {
		lay = r.Intn(5) // accepted layouts
	}
	amount := c03GenAmount(r)
	eerr, est, fb, fl := c03GenFees(r)
	if directed >= 0 {
		// directed: every (backend, kind, layout) with ordinary numbers
		backend, kind, lay = directed%2, (directed/2)%3, (directed/6)%c03NLayouts
		amount = uint64(r.Range(50000, 5000000))
		eerr, est, fb, fl = false, r.Range(253, 5000), 253, 253
	}
	pre := c03RandBytes(r, 32)
	preStr := hex.EncodeToString(pre)
	hash := sha256.Sum256(pre)
	preOK := true
	takerHex := hex.EncodeToString(keys.taker.PubKey().SerializeCompressed())
	makerHex := hex.EncodeToString(keys.maker.PubKey().SerializeCompressed())
	hashHex := hex.EncodeToString(hash[:])
	claimWho, takerWho := 0, 0
	if kind != 0 {
		claimWho = 1
	}
	addrFail, bcastFail := false, false
	badOpeningHex := false
	if directed < 0 {
		switch r.Intn(30) {
		case 0:
			preStr = hex.EncodeToString(c03RandBytes(r, 32)) // not the preimage of the hash
			preOK = false
		case 1:
			preStr = PickS(r, []string{"", "00", preStr[:62], preStr + "00", preStr[:63] + "g"})
			preOK = false
		case 2:
			takerHex = PickS(r, []string{takerHex[:65], "zz" + takerHex[2:], ""})
		case 3:
			makerHex = PickS(r, []string{makerHex + "0", "", "0x" + makerHex})
		case 4:
			hashHex = PickS(r, []string{hashHex[:63], hashHex + "x"})
		case 5:
			claimWho = PickI3(r, claimWho)
		case 6:
			takerWho = 1 + r.Intn(2)
		case 7:
			addrFail = true
		case 8:
			bcastFail = true
		case 9:
			badOpeningHex = true
		}
	}
	params := &swap.OpeningParams{TakerPubkey: takerHex, MakerPubkey: makerHex, ClaimPaymentHash: hashHex, Amount: amount, CSV: 1008}

	chain := onchain.NewBitcoinOnChain(&fakeEstimator{btcutil.Amount(est), map[bool]error{true: errors.New("estimator down"), false: nil}[eerr]},
		btcutil.Amount(fb), btcutil.Amount(fl), c03Net)

	// the P2WSH script of the opening script: computed here from the script bytes (not with the node's GetOutputScript)
	var want []byte
	redeem, rerr := onchain.ParamsToTxScript(params, onchain.BitcoinCsv)
	if rerr == nil {
		want = c03P2wsh(redeem)
	} else {
		want = c03P2wsh([]byte{0x51})
	}
	opening := c03GenOpening(r, lay, amount, want)
	openingHex := hex.EncodeToString(c03TxBytes(opening))
	if badOpeningHex {
		openingHex = PickS(r, []string{"", "zz", openingHex[:len(openingHex)/2], openingHex[:len(openingHex)-1], "00"})
	}

	// wallet address
	addr, addrScript := c03P2wpkh(r)
	addrKind := "p2wpkh"
	if directed < 0 && r.Chance(10) {
		a, _ := btcutil.NewAddressWitnessScriptHash(c03RandBytes(r, 32), c03Net)
		addr = a.EncodeAddress()
		addrScript, _ = txscript.PayToAddrScript(a)
		addrKind = "p2wsh"
	}
	da, _ := btcutil.DecodeAddress(addr, c03Net)
	addrProg := da.ScriptAddress()

	w.wallet.reset(c03WalletCfg{Addr: addr, AddrFail: addrFail, BcastFail: bcastFail})
	ad, closeAd, err := w.adapter(backend, chain)
	if err != nil {
		return err
	}
	defer closeAd()

	var calls []c03SigCall
	keyOf := func(who int) *btcec.PrivateKey {
		switch who {
		case 0:
			return keys.taker
		case 1:
			return keys.maker
		}
		return keys.other
	}
	// a signer's id is defined by the params: 0 if its public key is the params' taker key, 1 if the maker key
	whoOf := func(k *btcec.PrivateKey) int {
		h := hex.EncodeToString(k.PubKey().SerializeCompressed())
		switch {
		case strings.EqualFold(h, takerHex):
			return 0
		case strings.EqualFold(h, makerHex):
			return 1
		}
		return 2
	}
	claimKey, takerKey := keyOf(claimWho), keyOf(takerWho)
	claimWho, takerWho = whoOf(claimKey), whoOf(takerKey)
	claimSigner := &c03Signer{key: claimKey, who: claimWho, calls: &calls}
	takerSigner := &c03Signer{key: takerKey, who: takerWho, calls: &calls}
	cp := &swap.ClaimParams{Preimage: preStr, Signer: claimSigner, OpeningTxHex: openingHex}

	// the validator's verdict on this opening transaction (real ValidateTx)
	valid, verr := chain.ValidateTx(params, openingHex)
	validated := valid && verr == nil

	result := 0
	var rTxid, rHex, rAddr string
	func() {
		defer func() {
			if p := recover(); p != nil {
				result = 2
			}
		}()
		var e error
		switch kind {
		case 0:
			rTxid, rHex, rAddr, e = ad.CreatePreimageSpendingTransaction(params, cp)
		case 1:
			rTxid, rHex, rAddr, e = ad.CreateCsvSpendingTransaction(params, cp)
		default:
			rTxid, rHex, rAddr, e = ad.CreateCoopSpendingTransaction(params, cp, takerSigner)
		}
		if e != nil {
			result = 1
		}
	}()
	obs := w.wallet.observed()

	// parse what was handed over for broadcast
	var txs []*wire.MsgTx
	for _, raw := range obs.Broadcasts {
		t := wire.NewMsgTx(2)
		if err := t.Deserialize(bytes.NewReader(raw)); err != nil {
			return fmt.Errorf("broadcast transaction does not parse: %v", err)
		}
		txs = append(txs, t)
	}
	retTxidOK, retHexOK, retAddrOK, engineOK := false, false, false, false
	var callTerms []string
	var jsCalls []interface{}
	if len(txs) == 1 {
		t := txs[0]
		retTxidOK = rTxid == t.TxHash().String()
		retHexOK = rHex == hex.EncodeToString(obs.Broadcasts[0])
		var prev *wire.TxOut
		if len(t.TxIn) >= 1 && !badOpeningHex && t.TxIn[0].PreviousOutPoint.Hash == opening.TxHash() &&
			int(t.TxIn[0].PreviousOutPoint.Index) < len(opening.TxOut) {
			prev = opening.TxOut[t.TxIn[0].PreviousOutPoint.Index]
		}
		if prev != nil && len(t.TxIn) == 1 {
			engineOK = c03Engine(t, prev)
		}
		for _, c := range calls {
			pa, co := false, false
			if len(t.TxIn) >= 1 {
				if rerr == nil {
					pa = bytes.Equal(c.hash, c03SigHash(t, redeem, int64(amount)))
				}
				wit := t.TxIn[0].Witness
				if prev != nil && len(wit) > 0 {
					co = bytes.Equal(c.hash, c03SigHash(t, wit[len(wit)-1], prev.Value))
				}
			}
			callTerms = append(callTerms, fmt.Sprintf("mk_call %d%%N %s %s", c.who, CoqBool(pa), CoqBool(co)))
			jsCalls = append(jsCalls, map[string]interface{}{"signer": []string{"taker-key", "maker-key", "other-key"}[c.who],
				"digest_is_bip143_with_swap_amount": pa, "digest_is_consensus_digest": co})
		}
	} else {
		for _, c := range calls {
			callTerms = append(callTerms, fmt.Sprintf("mk_call %d%%N false false", c.who))
		}
	}
	retAddrOK = rAddr == addr
	addrTypeOK := true
	for _, t := range obs.AddrTypes {
		if t != "bech32" && t != "WITNESS_PUBKEY_HASH" {
			addrTypeOK = false
		}
	}

	txTerms := make([]string, len(txs))
	jsTxs := []interface{}{}
	for i, t := range txs {
		txTerms[i] = c03CoqTx(t, calls)
		jsTxs = append(jsTxs, c03JsTx(t))
	}
	openingTerm := "None"
	if !badOpeningHex {
		openingTerm = fmt.Sprintf("(Some (%s, %s))", CoqStr(opening.TxHash().String()), c03CoqOuts(opening.TxOut))
	}
	addrTerm := "None"
	if !addrFail {
		addrTerm = "(Some " + coqBytes(addrProg) + ")"
	}
	in := fmt.Sprintf("(mk_btc_in %d%%N %d%%N %s %s %s %s %s %s %s %s %s %s %s %s %s %s %s %d%%N %d%%N)",
		backend, kind, CoqStr(takerHex), CoqStr(makerHex), CoqStr(hashHex), CoqZu(amount), openingTerm, coqBytes(want),
		CoqStr(preStr), CoqBool(preOK), addrTerm, coqBytes(addrScript), CoqBool(eerr), CoqZ(est), CoqZ(fb), CoqZ(fl), CoqBool(bcastFail), claimWho, takerWho)
	ob := fmt.Sprintf("(mk_btc_obs %d%%N %s %s %s %s %s %s %s %s)", result, CoqBool(validated), CoqList(txTerms), CoqList(callTerms),
		CoqBool(retTxidOK), CoqBool(retHexOK), CoqBool(retAddrOK), CoqBool(engineOK), CoqBool(addrTypeOK))
	kindName := []string{"preimage", "csv", "coop"}[kind]
	beName := []string{"cln", "lnd"}[backend]
	k := fmt.Sprintf("btc:%s:%s:%s:res%d", beName, kindName, c03LayNames[lay], result)
	key := fmt.Sprintf("btc|%d|%d|%d|%d|%d|%v|%d|%d|%d|%s|%v%v%v|%d%d|%s", backend, kind, lay, amount, est, eerr, fb, fl, result, addrKind, addrFail, bcastFail, badOpeningHex, claimWho, takerWho, preStr)
	cf.Add("C03Btc "+in+" "+ob, key, result == 0 || lay >= 3, k, map[string]interface{}{
		"family": "btc", "backend": beName, "kind": kindName, "layout": c03LayNames[lay],
		"params": map[string]interface{}{"taker": takerHex, "maker": makerHex, "hash": hashHex, "amount": amount},
		"opening_tx_hex": openingHex, "preimage": preStr, "wallet_address": addr,
		"estimator": map[string]interface{}{"error": eerr, "sat_per_kw": est, "fallback": fb, "floor": fl},
		"claim_signer": claimWho, "taker_signer": takerWho, "addr_fail": addrFail, "broadcast_fail": bcastFail,
		"observed": map[string]interface{}{"result": []string{"ok", "error", "panic"}[result], "validator_accepts_opening": validated,
			"broadcast": jsTxs, "sign_calls": jsCalls, "returned_txid_is_broadcast_txid": retTxidOK, "returned_hex_is_broadcast": retHexOK,
			"btcd_engine_accepts": engineOK, "returned_txid": rTxid},
	})
	return nil
}

// PickI3 returns a signer id different from cur.
func PickI3(r *Rng, cur int) int {
	return (cur + 1 + r.Intn(2)) % 3
}

// ---------- dump: constants of the spend builder, probed on the running code

func c03ProbeBtc() (margin, allowance, refundSize int64, csvSeq, preSeq uint32, version int32, err error) {
	r := NewRng(7)
	keys := c03Keys{c02RandKey(r), c02RandKey(r), c02RandKey(r)}
	pre := c03RandBytes(r, 32)
	hash := sha256.Sum256(pre)
	params := &swap.OpeningParams{TakerPubkey: hex.EncodeToString(keys.taker.PubKey().SerializeCompressed()),
		MakerPubkey: hex.EncodeToString(keys.maker.PubKey().SerializeCompressed()), ClaimPaymentHash: hex.EncodeToString(hash[:]), Amount: 1000000, CSV: 1008}
	// 250 sat/kw = exactly 1 sat/vbyte: GetFee(size) = size
	chain := onchain.NewBitcoinOnChain(&fakeEstimator{250, nil}, 250, 0, c03Net)
	redeem, e := onchain.ParamsToTxScript(params, onchain.BitcoinCsv)
	if e != nil {
		return 0, 0, 0, 0, 0, 0, e
	}
	opening := c03GenOpening(r, c03LaySwapOnly, params.Amount, c03P2wsh(redeem))
	cp := &swap.ClaimParams{OpeningTxHex: hex.EncodeToString(c03TxBytes(opening))}
	addr, _ := c03P2wpkh(r)
	tx1, _, _, e := chain.PrepareSpendingTransaction(params, cp, addr, 0, onchain.BitcoinCsv, 1)
	if e != nil {
		return 0, 0, 0, 0, 0, 0, e
	}
	margin = int64(params.Amount) - tx1.TxOut[0].Value - 1
	tx0, _, _, e := chain.PrepareSpendingTransaction(params, cp, addr, 0, 0, 0)
	if e != nil {
		return 0, 0, 0, 0, 0, 0, e
	}
	allowance = int64(params.Amount) - tx0.TxOut[0].Value - margin - int64(tx0.SerializeSizeStripped())
	w := &c03Wallet{}
	w.reset(c03WalletCfg{})
	rf, e := c03NewLndClient(w, chain).GetRefundFee()
	if e != nil {
		return 0, 0, 0, 0, 0, 0, e
	}
	return margin, allowance, int64(rf), tx1.TxIn[0].Sequence, tx0.TxIn[0].Sequence, tx1.Version, nil
}

func init() {
	registerDump("ConstsC03.v", func() (string, error) {
		var b strings.Builder
		b.WriteString("From Coq Require Import ZArith.\nOpen Scope Z_scope.\n")
		restore := c03Quiet()
		margin, allowance, refund, csvSeq, preSeq, ver, err := c03ProbeBtc()
		restore()
		if err != nil {
			return "", err
		}
		b.WriteString("(* probed on PrepareSpendingTransaction / GetRefundFee at exactly 1 sat/vbyte *)\n")
		fmt.Fprintf(&b, "Definition gen_btc_spend_margin : Z := %d.\n", margin)
		fmt.Fprintf(&b, "Definition gen_btc_witness_allowance : Z := %d.\n", allowance)
		fmt.Fprintf(&b, "Definition gen_btc_refund_fee_vsize : Z := %d.\n", refund)
		fmt.Fprintf(&b, "Definition gen_btc_csv_sequence : Z := %d.\n", csvSeq)
		fmt.Fprintf(&b, "Definition gen_btc_claim_sequence : Z := %d.\n", preSeq)
		fmt.Fprintf(&b, "Definition gen_btc_spend_version : Z := %d.\n", ver)
		fmt.Fprintf(&b, "Definition gen_onchain_bitcoin_csv_c03 : Z := %d.\n", onchain.BitcoinCsv)
		if err := c03DumpLiquid(&b); err != nil {
			return "", err
		}
		return b.String(), nil
	})
	register("c03", "claim / coop / csv spending transactions: real wallet adapters + btcd engine (Bitcoin), real LiquidOnChain + go-elements (Liquid)", runC03)
}

func runC03(args []string) error {
	fs := flag.NewFlagSet("c03", flag.ExitOnError)
	out := fs.String("out", "/verif/work/C03", "output dir")
	seed := fs.Uint64("seed", 1, "seed")
	n := fs.Int("n", 400, "random Bitcoin cases")
	nl := fs.Int("nl", 36, "random Liquid cases")
	monitor := fs.String("monitor", "c03_monitor", "Coq monitor function (c03_case -> bool)")
	imports := fs.String("imports", "", "extra Coq import line for the monitor")
	fs.Parse(args)
	restore := c03Quiet()
	defer restore()
	r := NewRng(*seed)
	cf := NewCaseFile("From PS Require Import Base.ScriptOps Model.Tx Model.C03Corr.\n"+*imports, "c03_case", "c03_check", *monitor)
	w, err := c03NewWorld()
	if err != nil {
		return err
	}
	defer w.close()
	for d := 0; d < 6*c03NLayouts; d++ {
		if err := c03BtcCase(cf, r, w, d, d); err != nil {
			return err
		}
	}
	for i := 0; i < *n; i++ {
		if err := c03BtcCase(cf, r, w, i, -1); err != nil {
			return err
		}
	}
	if err := c03LiquidFamily(cf, r, *nl); err != nil {
		return err
	}
	shard := (len(cf.Cases) + 15) / 16
	if shard < 1 {
		shard = 1
	}
	return cf.Write(*out, shard, map[string]interface{}{"seed": *seed})
}
