package main

// C23: step observer for `psh fsm`. For every message handed to the (fake) messenger during a
// step it scans the payload BYTES for renderings (hex lower/upper, raw bytes, decimal arrays as
// printed by %v or JSON, base64 in its four variants) of the secrets the simulation knows: the
// swap private key, every claim / fee preimage generated or learned so far, the node's own
// blinding key. The persisted cancel / error texts and the rejection reasons are scanned for
// all of them. What is allowed is decided in Coq (Model/C23Corr.v): the observer only counts.

import (
	"bytes"
	"encoding/base64"
	"encoding/hex"
	"encoding/json"
	"fmt"
	"strconv"
	"strings"
	"sync"

	"github.com/elementsproject/peerswap/messages"
)

type c23Secrets struct {
	priv      []byte
	preimages map[string]bool // hex
	blind     string          // hex, own key
}

var (
	c23Mu    sync.Mutex
	c23State = map[*Scen]*c23Secrets{}
)

func renderings(b []byte) [][]byte {
	if len(b) < 8 {
		return nil
	}
	dec := make([]string, len(b))
	for i, x := range b {
		dec[i] = strconv.Itoa(int(x))
	}
	h := hex.EncodeToString(b)
	out := [][]byte{
		[]byte(h), []byte(strings.ToUpper(h)), b,
		[]byte(strings.Join(dec, " ")), []byte(strings.Join(dec, ",")), []byte(strings.Join(dec, ", ")),
	}
	seen := map[string]bool{}
	for _, e := range []*base64.Encoding{base64.StdEncoding, base64.RawStdEncoding, base64.URLEncoding, base64.RawURLEncoding} {
		s := e.EncodeToString(b)
		// the padded form contains the raw form: count the longest distinct ones only
		s = strings.TrimRight(s, "=")
		if !seen[s] {
			seen[s] = true
			out = append(out, []byte(s))
		}
	}
	return out
}

func countHits(hay []byte, secret []byte) int {
	n := 0
	for _, r := range renderings(secret) {
		n += bytes.Count(hay, r)
	}
	return n
}

func hexBytes(s string) []byte {
	b, err := hex.DecodeString(s)
	if err != nil {
		return nil
	}
	return b
}

func init() {
	registerObserver("c23", func(sc *Scen, rec *stepRecord) string {
		c23Mu.Lock()
		st := c23State[sc]
		if st == nil {
			st = &c23Secrets{preimages: map[string]bool{}}
			c23State[sc] = st
		}
		c23Mu.Unlock()
		e := sc.env
		// learn the secrets this step generated or received
		if m := sc.held; m != nil && m.Data != nil {
			d := m.Data
			if len(d.PrivkeyBytes) > 0 {
				st.priv = append([]byte{}, d.PrivkeyBytes...)
			}
			for _, p := range []string{d.ClaimPreimage, d.FeePreimage} {
				if p != "" {
					st.preimages[p] = true
				}
			}
			if d.BlindingKeyHex != "" {
				st.blind = d.BlindingKeyHex
			}
		}
		for _, p := range e.served.Preimage {
			if p[0] != "" {
				st.preimages[p[0]] = true
			}
		}
		for _, l := range [][]*string{e.served.Pay, e.served.PayFee, e.served.RecoverPay} {
			for _, p := range l {
				if p != nil && *p != "" {
					st.preimages[*p] = true
				}
			}
		}
		id := ""
		if sc.id != nil {
			id = sc.id.String()
		}
		scans := []string{}
		for _, sm := range e.sentLog {
			priv := countHits(sm.Payload, st.priv)
			pre := 0
			for p := range st.preimages {
				pre += countHits(sm.Payload, hexBytes(p))
			}
			blind := countHits(sm.Payload, hexBytes(st.blind))
			privAllowed, blindAllowed := 0, 0
			var fields map[string]interface{}
			if json.Unmarshal(sm.Payload, &fields) == nil {
				if messages.MessageType(sm.Type) == messages.MESSAGETYPE_COOPCLOSE && len(st.priv) > 0 {
					if s, ok := fields["privkey"].(string); ok && s == hex.EncodeToString(st.priv) {
						if sid, ok := fields["swap_id"].(string); ok && sid == id {
							privAllowed = 1
						}
					}
				}
				if messages.MessageType(sm.Type) == messages.MESSAGETYPE_OPENINGTXBROADCASTED && st.blind != "" {
					if s, ok := fields["blinding_key"].(string); ok && s == st.blind {
						blindAllowed = 1
					}
				}
			}
			scans = append(scans, fmt.Sprintf("mkScan %d%%Z %d %d %d %d %d", sm.Type, priv, privAllowed, pre, blind, blindAllowed))
		}
		// texts that are persisted or logged into the requested-swaps store
		texts := []string{}
		if m := sc.held; m != nil && m.Data != nil {
			texts = append(texts, m.Data.CancelMessage, m.Data.LastErrString)
			if m.Data.LastErr != nil {
				texts = append(texts, m.Data.LastErr.Error())
			}
		}
		if sc.id != nil {
			if m, err := sc.node.store.GetData(id); err == nil && m != nil && m.Data != nil {
				texts = append(texts, m.Data.CancelMessage, m.Data.LastErrString)
			}
		}
		for _, j := range e.effJSON {
			if mm, ok := j.(map[string]interface{}); ok {
				if r, ok := mm["reason"].(string); ok {
					texts = append(texts, r)
				}
			}
		}
		textHits := 0
		for _, t := range texts {
			if t == "" {
				continue
			}
			tb := []byte(t)
			textHits += countHits(tb, st.priv) + countHits(tb, hexBytes(st.blind))
			for p := range st.preimages {
				textHits += countHits(tb, hexBytes(p))
			}
		}
		rec.JS["c23_scans"] = len(scans)
		return fmt.Sprintf("mkC23Obs %s %d", CoqList(scans), textHits)
	})
}
