package main

// C05: the simulated chain decides at which height the opening transaction was mined
// (the taker's code is never told). Step observer "c05": for every step of a Bitcoin swap
// in which a claim payment is attempted, the Coq term `Some C` (else `None`), and the numbers
// S (start), C (confirmation), P (highest payment tip), f (invoice final CLTV) in the case JSON.

import (
	"strconv"
	"sync"
)

var (
	c05Mu      sync.Mutex
	c05ConfOff = map[*Scen]int64{} // directed: confirmation height = start + offset
	c05HasOff  = map[*Scen]bool{}
)

func c05Observer(sc *Scen, rec *stepRecord) string {
	if sc.chain != "btc" || sc.held == nil {
		return "None"
	}
	effs, _ := rec.JS["effects"].([]interface{})
	var first, last uint32
	var payreq string
	n := 0
	for _, e := range effs {
		m, ok := e.(map[string]interface{})
		if !ok || m["e"] != "PayClaim" {
			continue
		}
		tip, _ := m["tip"].(uint32)
		if n == 0 {
			first = tip
		}
		if tip > last {
			last = tip
		}
		payreq, _ = m["payreq"].(string)
		n++
	}
	if n == 0 {
		return "None"
	}
	S := int64(sc.held.Data.StartingBlockHeight)
	f := int64(0)
	if d, ok := sc.env.Decode[payreq]; ok {
		f = d.Cltv
	}
	// the watcher reports the transaction with 3 confirmations: C, C+1, C+2 exist when the callback fires
	hi := int64(first) - 2
	lo := int64(1)
	if sc.role == "in_receiver" {
		lo = S + 1 // the maker learns the taker's key from the agreement, sent when the start height was taken
	}
	c05Mu.Lock()
	off, has := c05ConfOff[sc], c05HasOff[sc]
	c05Mu.Unlock()
	var C int64
	if has {
		C = S + off
	} else {
		cands := []int64{S - 7, S - 1, S, S + 1, S + 4, S + 5, S + 6, hi, hi - 1}
		if hi > lo {
			cands = append(cands, lo+sc.r.Range(0, hi-lo))
		}
		ok := []int64{}
		for _, c := range cands {
			if c >= lo && c <= hi {
				ok = append(ok, c)
			}
		}
		if len(ok) == 0 {
			return "None" // the simulated confirmation is not physically consistent with any mining height
		}
		C = ok[sc.r.Intn(len(ok))]
	}
	if C < 1 || C > hi {
		return "None"
	}
	rec.JS["c05"] = map[string]interface{}{"S": S, "C": C, "P": int64(last), "f": f}
	return "(Some " + strconv.FormatInt(C, 10) + "%Z)"
}

func init() {
	registerObserver("c05", c05Observer)
	// pre_conf:N - the opening transaction of this scenario is mined at start height + N
	registerStep("pre_conf", func(sc *Scen, arg string) {
		v, err := strconv.ParseInt(arg, 10, 64)
		if err != nil {
			return
		}
		c05Mu.Lock()
		c05ConfOff[sc], c05HasOff[sc] = v, true
		c05Mu.Unlock()
	})
	registerDirected(
		// D20: announcement as late as the code accepts, largest accepted invoice CLTV, payment at the last
		// accepted height; the opening tx was mined right after the start (C = S+1): no margin left
		directed{"in_receiver", "btc", []string{"request", "tip=anchor+503", "otbx:cltv=504", "pre_conf:1", "tip=anchor+504", "tx_confirmed"}},
		// lnd's limit f+4: C = S+4 is still too early, C = S+5 is the first safe height
		directed{"in_receiver", "btc", []string{"request", "tip=anchor+503", "otbx:cltv=504", "pre_conf:4", "tip=anchor+504", "tx_confirmed"}},
		directed{"in_receiver", "btc", []string{"request", "tip=anchor+503", "otbx:cltv=504", "pre_conf:5", "tip=anchor+504", "tx_confirmed"}},
		// swap-out: the maker can have the opening tx mined before the taker's start height
		directed{"out_sender", "btc", []string{"start", "out_agreement", "otbx:cltv=504", "pre_conf:-20", "tip=anchor+3", "tx_confirmed"}},
		directed{"out_sender", "btc", []string{"start", "out_agreement", "otbx:cltv=504", "pre_conf:-600", "tip=anchor+504", "tx_confirmed"}},
		// ordinary flows with margin
		directed{"out_sender", "btc", []string{"start", "out_agreement", "otb", "pre_conf:2", "tip=anchor+6", "tx_confirmed"}},
		directed{"in_receiver", "btc", []string{"request", "otbx:cltv=144", "pre_conf:10", "tip=anchor+300", "tx_confirmedx:fail=1,tips=300+504"}},
		// the retry loop: a second attempt one block after the window closed must not be made
		directed{"in_receiver", "btc", []string{"request", "otb", "pre_conf:3", "tip=anchor+504", "tx_confirmedx:fail=1,tips=504+505"}},
	)
}
