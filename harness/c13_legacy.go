package main

// C13: a record written before the payment-window anchor existed (a database of an older release): a Liquid
// protocol-7 taker swap that has revealed its pubkey and has NO stored anchor. "legacy_restart" rewrites the stored
// record of the scenario's swap without the anchor, forgets the steps recorded so far (the observed scenario then
// starts from that record) and restarts the node. Such a swap must never get an anchor later and never pays.

import "github.com/elementsproject/peerswap/swap"

func init() {
	registerStepKind(func(sc *Scen, name string) bool {
		if name != "legacy_restart" && name != "legacy_restart_pay" {
			return false
		}
		if sc.id == nil {
			return true
		}
		m, err := sc.node.store.GetData(sc.id.String())
		if err != nil || m == nil || m.Data == nil {
			return true
		}
		m.Data.StartingBlockHeight = 0
		m.Data.StartingBlockHeightSet = false
		if name == "legacy_restart_pay" {
			// ... and the old release had stopped in the state that pays the claim invoice
			st := swap.State_SwapOutSender_ValidateTxAndPayClaimInvoice
			if sc.role == "in_receiver" {
				st = swap.State_SwapInReceiver_ValidateTxAndPayClaimInvoice
			}
			m.Previous = m.Current
			m.Current = st
			m.Data.SetState(st)
		}
		if err := sc.node.store.inner.UpdateData(m); err != nil {
			return true
		}
		sc.steps = nil
		sc.stepRestart()
		return true
	})
	registerDirected(
		directed{"out_sender", "lbtc", []string{"start", "out_agreement", "legacy_restart", "otb", "tx_confirmed"}},
		directed{"in_receiver", "lbtc", []string{"request", "legacy_restart", "otb", "tx_confirmed"}},
		directed{"out_sender", "lbtc", []string{"start", "out_agreement", "otb", "legacy_restart", "tx_confirmed"}},
		directed{"in_receiver", "lbtc", []string{"request", "otb", "legacy_restart", "tx_confirmed", "restart"}},
	)
	// the record of an old release stopped in the paying state: C13's own scenarios (the crash-observer
	// correspondence of other properties does not describe a restart from a record rewritten between steps)
	registerDirectedFor("C13",
		directed{"out_sender", "lbtc", []string{"start", "out_agreement", "otb", "legacy_restart_pay"}},
		directed{"in_receiver", "lbtc", []string{"request", "otb", "legacy_restart_pay", "restart"}},
		directed{"out_sender", "btc", []string{"start", "out_agreement", "otb", "legacy_restart_pay"}},
	)
}
