// psh: correspondence harness and dumper for the peerswap Coq development.
// One binary, one subcommand per domain; each subcommand runs the REAL
// implementation (linked from /repo, build tag verif) on generated inputs and
// writes (a) a Coq file of (input, observed) cases and (b) a JSON summary.
package main

import (
	"fmt"
	"os"
	"sort"
)

type subcmd struct {
	name string
	help string
	run  func(args []string) error
}

var registry = map[string]subcmd{}

func register(name, help string, run func(args []string) error) {
	registry[name] = subcmd{name, help, run}
}

func main() {
	if len(os.Args) < 2 {
		usage()
		os.Exit(2)
	}
	sc, ok := registry[os.Args[1]]
	if !ok {
		usage()
		os.Exit(2)
	}
	if err := sc.run(os.Args[2:]); err != nil {
		fmt.Fprintf(os.Stderr, "psh %s: %v\n", sc.name, err)
		os.Exit(3)
	}
}

func usage() {
	names := []string{}
	for n := range registry {
		names = append(names, n)
	}
	sort.Strings(names)
	fmt.Fprintln(os.Stderr, "usage: psh <subcommand> [flags]")
	for _, n := range names {
		fmt.Fprintf(os.Stderr, "  %-12s %s\n", n, registry[n].help)
	}
}
