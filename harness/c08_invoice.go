package main

// C08 / C17, invoice side: the REAL GetPayreq of both Lightning back-ends must ask the node for exactly the invoice
// the swap asked for: amount in msat, the given preimage, the given expiry in seconds (86400 / 3600 for claim
// invoices, 600 for the fee invoice) and the given final CLTV delta (503 Bitcoin / 29 Liquid claim invoices).

import (
	"encoding/hex"
	"encoding/json"
	"flag"
	"fmt"
	"os"
	"strconv"

	"github.com/elementsproject/peerswap/clightning"
	pslnd "github.com/elementsproject/peerswap/lnd"
	"github.com/elementsproject/peerswap/swap"
)

func init() {
	register("invoice", "GetPayreq of the CLN and LND adapters: what the (fake) node is asked to create", runInvoice)
}

func rawU64(m map[string]json.RawMessage, keys ...string) (uint64, bool) {
	for _, k := range keys {
		if v, ok := m[k]; ok {
			var n uint64
			if json.Unmarshal(v, &n) == nil {
				return n, true
			}
			var s string
			if json.Unmarshal(v, &s) == nil {
				// "1000msat"
				t := s
				for len(t) > 0 && (t[len(t)-1] < '0' || t[len(t)-1] > '9') {
					t = t[:len(t)-1]
				}
				if n, err := strconv.ParseUint(t, 10, 64); err == nil {
					return n, true
				}
			}
		}
	}
	return 0, false
}

func runInvoice(args []string) error {
	fs := flag.NewFlagSet("invoice", flag.ExitOnError)
	out := fs.String("out", "/verif/work/C08/invoice", "output dir")
	seed := fs.Uint64("seed", 1, "seed")
	n := fs.Int("n", 40, "random cases per back-end (after the protocol's own parameter sets)")
	fs.Parse(args)
	r := NewRng(*seed)
	if err := os.MkdirAll(*out, 0o755); err != nil {
		return err
	}
	cf := NewCaseFile("From PS Require Import Model.C08Invoice.", "inv_case", "inv_check", "inv_monitor")
	fake, err := startFakeCln(*out)
	if err != nil {
		return err
	}
	defer fake.ln.Close()
	cl, err := clightning.VerifNewClientOnSocket(*out, "lightning-rpc")
	if err != nil {
		return err
	}
	defer cl.VerifShutdown()
	type req struct {
		msat, expiry, cltv uint64
		it                 swap.InvoiceType
	}
	reqs := []req{
		{1000000000, 86400, 503, swap.INVOICE_CLAIM}, // Bitcoin claim invoice
		{1000000000, 3600, 29, swap.INVOICE_CLAIM},   // Liquid claim invoice
		{300000, 600, 0, swap.INVOICE_FEE},           // fee invoice
		{123456789, 3600, 30, swap.INVOICE_CLAIM},
		{1, 600, 1, swap.INVOICE_FEE},
		{5000000999, 86400, 80, swap.INVOICE_CLAIM},
		{5000000999, 86400, 81, swap.INVOICE_CLAIM},
		{42000, 599, 18, swap.INVOICE_FEE},
		{42000, 3599, 40, swap.INVOICE_CLAIM},
		{42000, 3601, 144, swap.INVOICE_CLAIM},
	}
	for i := 0; i < *n; i++ {
		reqs = append(reqs, req{uint64(r.Range(1, 9000000000)), uint64(PickI(r, []int64{1, 60, 600, 3600, 86400, int64(r.Range(1, 200000))})),
			uint64(PickI(r, []int64{0, 1, 9, 18, 29, 40, 79, 80, 81, 144, 503, 504, int64(r.Range(0, 2016))})), swap.INVOICE_CLAIM})
	}
	for _, q := range reqs {
		for backend := 0; backend < 2; backend++ {
			pre := randHex(r, 32)
			var gotMsat, gotExpiry, gotCltv uint64
			var gotPre string
			asked := false
			var gerr error
			if backend == 0 {
				fake.mu.Lock()
				fake.invoices = nil
				fake.mu.Unlock()
				_, gerr = cl.GetPayreq(q.msat, pre, "swapid", "memo", q.it, q.expiry, q.cltv)
				fake.mu.Lock()
				if len(fake.invoices) == 1 {
					p := fake.invoices[0]
					asked = true
					gotMsat, _ = rawU64(p, "amount_msat", "msatoshi")
					gotExpiry, _ = rawU64(p, "expiry")
					gotCltv, _ = rawU64(p, "cltv")
					json.Unmarshal(p["preimage"], &gotPre)
				}
				fake.mu.Unlock()
			} else {
				fl := &fakeLnd{}
				c := pslnd.VerifNewClient(fl, nil)
				_, gerr = c.GetPayreq(q.msat, pre, "swapid", "memo", q.it, q.expiry, q.cltv)
				if len(fl.addInvoices) == 1 {
					in := fl.addInvoices[0]
					asked = true
					gotMsat, gotExpiry, gotCltv = uint64(in.ValueMsat), uint64(in.Expiry), in.CltvExpiry
					gotPre = hex.EncodeToString(in.RPreimage)
				}
			}
			obs := "None"
			if asked && gerr == nil {
				obs = fmt.Sprintf("(Some (%s, %s, %s, %s))", CoqZu(gotMsat), CoqZu(gotExpiry), CoqZu(gotCltv), CoqBool(gotPre == pre))
			}
			be := []string{"cln", "lnd"}[backend]
			term := fmt.Sprintf("mkInv %d%%N %s %s %s %s", backend, CoqZu(q.msat), CoqZu(q.expiry), CoqZu(q.cltv), obs)
			cf.Add(term, fmt.Sprintf("%s|%d|%d|%d|%s", be, q.msat, q.expiry, q.cltv, pre), true, "invoice:"+be,
				map[string]interface{}{"family": "invoice", "backend": be, "requested": map[string]interface{}{"amount_msat": q.msat, "expiry_s": q.expiry, "final_cltv": q.cltv},
					"node_was_asked": map[string]interface{}{"amount_msat": gotMsat, "expiry_s": gotExpiry, "final_cltv": gotCltv, "preimage_is_the_given_one": gotPre == pre, "asked_once": asked, "error": gerr != nil}})
		}
	}
	return cf.Write(*out, 200, map[string]interface{}{"seed": *seed})
}
