package main

// C18, watcher side: the block dispatcher of the real BlockchainRpcTxWatcher (StartWatchingTxs with its own block
// polling) must keep delivering blocks while a confirmation callback of some swap is still running (a taker paying
// its claim invoice can take long) and after that swap's observation loop has ended. psh c18disp registers a
// confirmation watch whose callback is slow and a CSV watch of another swap that matures a few blocks later,
// mines blocks at a steady pace and expects the CSV notification.

import (
	"context"
	"flag"
	"fmt"
	"os"
	"strings"
	"sync/atomic"
	"time"

	pslog "github.com/elementsproject/peerswap/log"
	"github.com/elementsproject/peerswap/txwatcher"
)

func init() {
	register("c18disp", "block dispatcher of the real RPC watcher keeps running while / after a slow confirmation callback", runC18Disp)
}

func runC18Disp(args []string) error {
	fs := flag.NewFlagSet("c18disp", flag.ExitOnError)
	out := fs.String("out", "/verif/work/C18/disp", "output dir")
	seed := fs.Uint64("seed", 1, "seed")
	fs.Parse(args)
	pslog.SetLogger(quietLogger{})
	if err := os.MkdirAll(*out, 0o755); err != nil {
		return err
	}
	cf := NewCaseFile("From PS Require Import Model.C18Corr.", "c18d_case", "c18d_check", "c18d_monitor")
	type sc struct {
		slowMs   int // duration of the confirmation callback
		csv      uint32
		blockMs  int // block interval
		nSlow    int // number of swaps with a slow confirmation callback
	}
	scs := []sc{{1500, 5, 700, 1}, {2500, 6, 600, 2}, {900, 4, 600, 1}, {1500, 8, 600, 3}}
	type res struct {
		csvSeen, confSeen bool
	}
	results := make([]res, len(scs))
	done := make(chan int, len(scs))
	for i, s := range scs {
		go func(i int, s sc) {
			defer func() { done <- i }()
			h0 := int64(1000 + 10*i)
			chain := c18NewChain(h0)
			ctx, cancel := context.WithCancel(context.Background())
			defer cancel()
			w := txwatcher.NewBlockchainRpcTxWatcher(ctx, chain, 3)
			var confs, csvs int32
			w.AddConfirmationCallback(func(swapId, txHex string, err error) error {
				atomic.AddInt32(&confs, 1)
				time.Sleep(time.Duration(s.slowMs) * time.Millisecond)
				return nil
			})
			w.AddCsvCallback(func(swapId string) error { atomic.AddInt32(&csvs, 1); return nil })
			if err := w.StartWatchingTxs(); err != nil {
				return
			}
			// the opening transactions are mined in the next block
			for k := 0; k < s.nSlow; k++ {
				id := fmt.Sprintf("%02x", k+1) + strings.Repeat("a1", 31)
				chain.AddTx(id, []byte{0x00, byte(k)}, h0+1)
				w.AddWaitForConfirmationTx(fmt.Sprintf("taker%d", k), id, 0, uint32(h0), 504, nil)
			}
			mk := "ee" + strings.Repeat("b2", 31)
			chain.AddTx(mk, []byte{0x00, 0xff}, h0+1)
			w.AddWaitForCsvTx("maker", mk, 0, uint32(h0), s.csv, nil)
			deadline := time.Now().Add(25 * time.Second)
			h := h0
			for time.Now().Before(deadline) && atomic.LoadInt32(&csvs) == 0 {
				h++
				chain.SetHeight(h)
				time.Sleep(time.Duration(s.blockMs) * time.Millisecond)
			}
			results[i] = res{atomic.LoadInt32(&csvs) > 0, atomic.LoadInt32(&confs) > 0}
		}(i, s)
	}
	for range scs {
		<-done
	}
	for i, s := range scs {
		r := results[i]
		term := fmt.Sprintf("mkC18D %d%%Z %d%%Z %d%%Z %d%%Z %s %s", s.slowMs, s.csv, s.blockMs, s.nSlow, CoqBool(r.confSeen), CoqBool(r.csvSeen))
		cf.Add(term, fmt.Sprintf("disp|%d|%d|%d|%d", s.slowMs, s.csv, s.blockMs, s.nSlow), true, fmt.Sprintf("dispatcher:slow-callback:csv-reported=%v", r.csvSeen),
			map[string]interface{}{"family": "dispatcher", "slow_confirmation_callback_ms": s.slowMs, "csv": s.csv, "block_interval_ms": s.blockMs,
				"swaps_with_slow_callback": s.nSlow, "confirmation_reported": r.confSeen, "csv_reported": r.csvSeen,
				"replay": fmt.Sprintf("psh c18disp -seed %d", *seed)})
	}
	return cf.Write(*out, 100, map[string]interface{}{"seed": *seed})
}
