package main

// C01 / C12: claim invoices that differ from the negotiated amount by less than one satoshi, on both chains and for
// both taker roles (the Bitcoin and the Liquid invoice checks are separate code sites).
func init() {
	registerDirected(
		directed{"out_sender", "lbtc", []string{"start", "out_agreement", "otbx:dmsat=1", "tx_confirmed"}},
		directed{"out_sender", "lbtc", []string{"start", "out_agreement", "otbx:dmsat=999", "tx_confirmed"}},
		directed{"in_receiver", "lbtc", []string{"request", "otbx:dmsat=1", "tx_confirmed"}},
		directed{"in_receiver", "lbtc", []string{"request", "otbx:dmsat=999", "tx_confirmed"}},
		directed{"out_sender", "lbtc", []string{"start", "out_agreement", "otbx:dmsat=-999", "tx_confirmed"}},
		directed{"out_sender", "btc", []string{"start", "out_agreement", "otbx:dmsat=999", "tx_confirmed"}},
		directed{"in_receiver", "btc", []string{"request", "otbx:dmsat=999", "tx_confirmed"}},
		directed{"in_receiver", "btc", []string{"request", "otbx:dmsat=-999", "tx_confirmed"}},
	)
}
