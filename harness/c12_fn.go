package main

// C12: pure-function correspondence for the amount arithmetic of the swap data
// (GetClaimAmount, GetOpeningTXAmount, the msat amount the taker's invoice check accepts,
// CheckPremiumAmount) on boundary grids incl. int64/uint64 wrap-around, plus the directed
// fsm scenarios for the premium/fee bounds.

import (
	"flag"
	"fmt"
	"math"

	"github.com/elementsproject/peerswap/swap"
)

func c12OutData(amount uint64, premium, limit int64) *swap.SwapData {
	id := swap.NewSwapId()
	return &swap.SwapData{
		SwapOutRequest:   &swap.SwapOutRequestMessage{ProtocolVersion: 7, SwapId: id, Network: "regtest", Scid: "1x2x3", Amount: amount, Pubkey: "pk", PremiumLimit: limit},
		SwapOutAgreement: &swap.SwapOutAgreementMessage{ProtocolVersion: 7, SwapId: id, Pubkey: "pk", Payreq: "inv", Premium: premium},
	}
}

func c12InData(amount uint64, premium, limit int64) *swap.SwapData {
	id := swap.NewSwapId()
	return &swap.SwapData{
		SwapInRequest:   &swap.SwapInRequestMessage{ProtocolVersion: 7, SwapId: id, Network: "regtest", Scid: "1x2x3", Amount: amount, Pubkey: "pk", PremiumLimit: limit},
		SwapInAgreement: &swap.SwapInAgreementMessage{ProtocolVersion: 7, SwapId: id, Pubkey: "pk", Premium: premium},
	}
}

func init() {
	register("c12fn", "GetClaimAmount / GetOpeningTXAmount / CheckPremiumAmount on boundary grids (wrap-around)", func(args []string) error {
		fs := flag.NewFlagSet("c12fn", flag.ExitOnError)
		out := fs.String("out", "/verif/work/c12fn", "output dir")
		seed := fs.Uint64("seed", 1, "seed")
		n := fs.Int("n", 400, "random cases (boundary grid always included)")
		fs.Parse(args)
		r := NewRng(*seed)
		cf := NewCaseFile("From PS Require Import Model.Data Model.Actions Model.C12Corr.", "c12_case", "c12fn_check", "c12fn_monitor")
		add := func(out bool, amount uint64, premium, limit int64, kind string) {
			var d *swap.SwapData
			var onchain, claim uint64
			if out {
				d = c12OutData(amount, premium, limit)
			} else {
				d = c12InData(amount, premium, limit)
			}
			claim, onchain = d.GetClaimAmount(), d.GetOpeningTXAmount()
			passed, panicked := swap.VerifCheckPremium(d)
			cf.Add(fmt.Sprintf("C12Fn %s %s %s %s %s %s %s %s", CoqBool(out), CoqZu(amount), CoqZ(premium), CoqZ(limit),
				CoqZu(claim), CoqZu(onchain), CoqZu(claim*1000), CoqBool(passed && !panicked)),
				fmt.Sprintf("%v|%d|%d|%d", out, amount, premium, limit), true,
				fmt.Sprintf("%s:out=%v:passed=%v", kind, out, passed),
				map[string]interface{}{"fn": "CheckPremiumAmount+amounts", "swap_out": out, "amount": amount, "premium": premium, "limit": limit,
					"claim_sat": claim, "onchain_sat": onchain, "accepted_invoice_msat": claim * 1000, "passed": passed})
		}
		const maxSat = math.MaxUint64 / 1000
		amounts := []uint64{0, 1, 100000, 1000000, 4999999, maxSat - 1, maxSat, maxSat + 1, 1 << 62, (1 << 63) - 1, 1 << 63, math.MaxUint64}
		for _, a := range amounts {
			ai := int64(a)
			prems := []int64{0, 1, -1, 1000, 1001, -1000, -ai, -ai - 1, -ai + 1, math.MaxInt64, math.MinInt64, math.MinInt64 + 1, math.MaxInt64 - ai, int64(maxSat) - ai, int64(maxSat) - ai + 1}
			for _, p := range prems {
				for _, l := range []int64{1000, 0, -1, math.MaxInt64} {
					add(true, a, p, l, "grid")
					add(false, a, p, l, "grid")
				}
			}
		}
		// D13: negative premiums for which (2^64 - k)*1000 mod 2^64 is a payable amount above (amount+limit)*1000
		add(true, 1000000, -2305843009211693952, 10000, "d13")
		add(false, 1000000, -2305843009211693952, 10000, "d13")
		for i := 0; i < 40; i++ {
			// the maker wants t sat: u64(amount+premium) = t + 7*2^61, so that *1000 wraps to t*1000 msat
			amount := uint64(r.Range(100000, 5000000))
			t := r.Range(1, 20000000)
			add(true, amount, t-int64(amount)-(1<<61), r.Range(0, 50000), "d13-family")
		}
		for i := 0; i < *n; i++ {
			a := uint64(r.Range(0, 10000000))
			if r.Chance(20) {
				a = r.U64()
			}
			p := r.Range(-20000, 20000)
			if r.Chance(25) {
				p = int64(r.U64())
			}
			l := r.Range(-10, 30000)
			add(r.Bool(), a, p, l, "random")
		}
		return cf.Write(*out, 800, map[string]interface{}{"seed": *seed})
	})

	registerDirected(
		// D13: swap-out, maker answers with a hugely negative premium; the claim invoice then asks for 3x the swap
		directed{"out_sender", "btc", []string{"pre_amount:1000000", "start", "out_agreementx:prem=-2305843009211693952,fee=300", "otb", "tx_confirmed"}},
		// premium at / above the limit (limit = ppm rate * amount; the generator's rate is 0..50000 ppm)
		directed{"out_sender", "btc", []string{"pre_amount:1000000", "start", "out_agreementx:prem=0,fee=300", "otb", "tx_confirmed"}},
		directed{"out_sender", "lbtc", []string{"pre_amount:1000000", "start", "out_agreementx:prem=-1000000,fee=300", "otb", "tx_confirmed"}},
		directed{"out_sender", "btc", []string{"pre_amount:1000000", "start", "out_agreementx:prem=-1000001,fee=300", "otb", "tx_confirmed"}},
		directed{"out_sender", "btc", []string{"pre_amount:1000000", "start", "out_agreementx:prem=9223372036854775807,fee=300"}},
		// fee invoice at 3x / 3x+1 of the estimate (300 sat): 900 / 901 sat, and sub-satoshi remainders
		directed{"out_sender", "btc", []string{"start", "out_agreementx:prem=100,fee=900", "otb", "tx_confirmed"}},
		directed{"out_sender", "btc", []string{"start", "out_agreementx:prem=100,fee=900,feemsat=999"}},
		directed{"out_sender", "btc", []string{"start", "out_agreementx:prem=100,fee=901"}},
		// swap-in initiator: on-chain amount = amount + premium
		directed{"in_sender", "btc", []string{"pre_amount:1000000", "start", "in_agreementx:prem=0", "paid_claim"}},
		directed{"in_sender", "lbtc", []string{"pre_amount:1000000", "start", "in_agreementx:prem=-1000001"}},
		directed{"in_sender", "btc", []string{"pre_amount:1000000", "start", "in_agreementx:prem=-2305843009211693952"}},
		directed{"in_sender", "btc", []string{"pre_amount:1000000", "start", "in_agreementx:prem=9223372036854775807"}},
	)
}
