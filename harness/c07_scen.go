package main

// C07 (a maker's locked funds are never abandoned): scripted maker scenarios with
// failure injection after the wallet broadcast and simulated process crashes at a
// chosen effect, plus the step observer that hands the crashed (unrecorded) steps
// to the Coq monitor.
//
// A crash is simulated as DESIGN.md section 3 says: the fake services panic when
// effect number k+1 is about to happen, the harness drops every in-memory object,
// reopens the real bbolt file and runs RecoverSwaps.  The crashed step is not a
// scenario step (it did not run to completion); it is attached to the following
// restart step as a `crash_obs` (pre machine, input, served world, k, the k effects
// that happened).

import (
	"fmt"
	"strings"

	"github.com/elementsproject/peerswap/messages"
	"github.com/elementsproject/peerswap/swap"
)

type c07Crash struct {
	term string
	js   map[string]interface{}
}

var c07Focus = focusIs("C07")

func c07Plan(name string) *Plan {
	switch name {
	case "height_nil":
		return &Plan{Height: []*uint32{nil}}
	case "spend_fail":
		return &Plan{Spend: []*string{nil}}
	case "spend_fail2":
		return &Plan{Spend: []*string{nil, nil}}
	case "script_fail":
		return &Plan{Script: []bool{false}}
	case "store_fail1":
		return &Plan{Store: []bool{false}}
	case "store_fail2":
		return &Plan{Store: []bool{true, false}}
	case "store_fail3":
		return &Plan{Store: []bool{true, true, false}}
	case "addsender_fail":
		return &Plan{AddSender: []bool{false}}
	case "send_fail":
		return &Plan{Send: []bool{false}}
	case "opening_fail":
		return &Plan{CreateOpening: []*OpeningRes{nil}}
	case "invoice_fail":
		return &Plan{MkInvoice: []*string{nil}}
	case "vout2":
		// the wallet places the swap output after two other outputs (change first)
		return &Plan{CreateOpening: []*OpeningRes{{Hex: "0200c07c07", Txid: strings.Repeat("c7", 32), Vout: 2}}}
	}
	return nil
}

func init() {
	registerStepHandler(func(sc *Scen, n string) bool {
		switch {
		case strings.HasPrefix(n, "plan:"):
			if p := c07Plan(strings.TrimPrefix(n, "plan:")); p != nil {
				ext(sc).plan = p
			}
			return true
		case strings.HasPrefix(n, "crash="):
			k := 0
			fmt.Sscanf(strings.TrimPrefix(n, "crash="), "%d", &k)
			ext(sc).crashAt = k + 1 // k effects happen, the next one kills the process
			return true
		case n == "coop_badkey":
			// a coop_close whose key is not 32 bytes of hex
			msg := &swap.CoopCloseMessage{SwapId: sc.id, Message: "coop", Privkey: "zz" + randHex(sc.r, 31)}
			sc.stepPeerMsg("coop_badkey", "Event_OnCoopCloseReceived", msg, messages.MESSAGETYPE_COOPCLOSE, "(MCoop "+coqCoop(msg)+")")
			return true
		case strings.HasPrefix(n, "tip+="):
			var d uint32
			fmt.Sscanf(strings.TrimPrefix(n, "tip+="), "%d", &d)
			sc.env.CurHeight += d
			return true
		}
		return false
	})

	registerBeginHook(func(sc *Scen, sp *stepSpec) {
		s := ext(sc)
		if sp.restart {
			// RecoverSwaps runs Recover in one goroutine per swap: a panic there cannot be caught by the
			// harness, so a crash DURING recovery is covered by the model (HCrash InRecover) only
			s.crashAt = 0
			return
		}
		if s.crashAt > 0 {
			sc.env.crashAt = s.crashAt
			s.crashAt = 0
			return
		}
		// random crash points in generated maker scenarios of a C07 run
		if c07Focus && !sc.clean && sc.isMaker() && !sp.fresh && sc.r.Chance(14) {
			sc.env.crashAt = 1 + sc.r.Intn(10)
		}
	})

	registerRecordHook(func(sc *Scen, rec *stepRecord, panicked bool) bool {
		e := sc.env
		if !(panicked && e.crashAt > 0 && e.nEffects >= e.crashAt) {
			return false
		}
		k := len(rec.Effects)
		s := ext(sc)
		s.stash = append(s.stash, c07Crash{
			term: fmt.Sprintf("mkCrash %s\n        (%s)\n        %s\n        %d %s", rec.Pre, rec.Input, rec.World, k, CoqList(rec.Effects)),
			js:   map[string]interface{}{"input": rec.Kind, "crashed_after_effects": k, "effects": rec.JS["effects"]},
		})
		// the process is gone: new objects over the same database file, then RecoverSwaps
		sc.stepRestart()
		return true
	})

	registerObserver("c07", func(sc *Scen, rec *stepRecord) string {
		s := ext(sc)
		terms := []string{}
		js := []interface{}{}
		for _, x := range s.stash {
			c := x.(c07Crash)
			terms = append(terms, c.term)
			js = append(js, c.js)
		}
		s.stash = nil
		if len(js) > 0 {
			rec.JS["crashed_before"] = js
		}
		return CoqList(terms)
	})

	if !c07Focus {
		return
	}
	type flow struct {
		role, chain string
		pre         []string // up to (excluding) the step that broadcasts
		bc          string   // the step in which the opening transaction is broadcast
	}
	flows := []flow{
		{"in_sender", "btc", []string{"start"}, "in_agreement"},
		{"out_receiver", "lbtc", []string{"request"}, "paid_fee"},
		{"in_sender", "lbtc", []string{"start"}, "in_agreement"},
		{"out_receiver", "btc", []string{"request"}, "paid_fee"},
	}
	mk := func(f flow, before []string, after ...string) directed {
		st := append([]string{}, f.pre...)
		st = append(st, before...)
		st = append(st, f.bc)
		st = append(st, after...)
		return directed{f.role, f.chain, st}
	}
	var ds []directed
	for i, f := range flows {
		// G1/D6: the height lookup after the wallet broadcast fails
		ds = append(ds, mk(f, []string{"plan:height_nil"}, "restart", "csv"))
		// G2/D7: the process dies right after the wallet broadcast (effect 3 of the step), then CSV matures
		ds = append(ds, mk(f, []string{"crash=3"}, "tip+=20000", "csv", "restart"))
		// every other crash point of the broadcasting step
		ks := []int{1, 2, 4, 5, 6, 7, 8, 9}
		if i >= 2 {
			ks = []int{2, 4, 6}
		}
		for _, k := range ks {
			ds = append(ds, mk(f, []string{fmt.Sprintf("crash=%d", k)}, "csv", "restart"))
		}
		// the ways out: paid, CSV, coop, cancel then CSV, bad coop keys, wallet failures, restarts in between
		ds = append(ds,
			mk(f, nil, "paid_claim", "restart"),
			mk(f, nil, "csv", "restart"),
			mk(f, nil, "coop"),
			mk(f, nil, "cancel", "restart", "csv"),
			mk(f, nil, "coop_badkey", "csv"),
			mk(f, nil, "plan:spend_fail", "coop", "restart", "csv"),
			mk(f, nil, "restart", "plan:spend_fail", "csv"),
			mk(f, []string{"plan:vout2"}, "restart", "cancel", "restart", "csv"),
		)
		// crash points of the refund step itself, and of a restart
		for _, k := range []int{1, 2, 3, 4, 5, 6} {
			if i >= 2 && k%2 == 0 {
				continue
			}
			ds = append(ds, mk(f, nil, fmt.Sprintf("crash=%d", k), "csv", "csv", "restart"))
		}
		ds = append(ds,
			mk(f, nil, "cancel", "crash=3", "csv", "csv"),
			// environment failures around the broadcast
			mk(f, []string{"plan:store_fail2"}, "restart", "csv"),
			mk(f, []string{"plan:store_fail3"}, "csv", "restart", "csv"),
			mk(f, []string{"plan:addsender_fail"}, "csv"),
			mk(f, []string{"plan:script_fail"}, "csv", "restart", "csv"),
			mk(f, []string{"plan:opening_fail"}, "restart"),
			mk(f, []string{"plan:invoice_fail"}, "restart"),
		)
	}
	// a peer announcing "its" opening transaction to the maker before the maker broadcasts
	ds = append(ds,
		directed{"in_sender", "btc", []string{"start", "otb", "in_agreement", "csv"}},
		directed{"out_receiver", "lbtc", []string{"request", "otb", "paid_fee", "csv"}},
	)
	registerDirected(ds...)
}
