package main

// C16: every swap terminates when the peer is silent, services work, the chain
// advances and the node is restarted from time to time.
//
//  * tail for -focus C16: after EVERY scenario (directed or random) the peer goes
//    silent and three "good late" rounds follow: the chain advances far beyond every
//    window and CSV, the node is restarted (RecoverSwaps) with no failure injected,
//    and a CSV callback is delivered when (and only when) a CSV watch was registered
//    in that process.  c16_monitor demands a terminal state and a released channel.
//  * "crash_fresh@k": the creating step (SwapOut/SwapIn RPC or the peer's request) dies
//    after its k-th effect; the node object is dropped and a new one is built on the
//    same database (RecoverSwaps runs in the following "restart" step).

import (
	"fmt"
	"strings"

	"github.com/elementsproject/peerswap/messages"
	"github.com/elementsproject/peerswap/swap"
)

const c16Rounds = 3

func stepHasEffect(st *stepRecord, prefix string) bool {
	for _, e := range st.Effects {
		if strings.HasPrefix(e, prefix) {
			return true
		}
	}
	return false
}

func (sc *Scen) settle(rounds int) {
	if sc.id == nil {
		return
	}
	sc.clean = true
	for i := 0; i < rounds; i++ {
		sc.env.CurHeight += 20000
		before := len(sc.steps)
		sc.stepRestart()
		if len(sc.steps) == before {
			return // no record of the swap: nothing to recover
		}
		last := &sc.steps[len(sc.steps)-1]
		if stepHasEffect(last, "EWatchCsv") && sc.current() != nil {
			sc.env.CurHeight += 20000
			sc.stepCsv()
		}
	}
}

// the creating step dies after its k-th effect
func (sc *Scen) stepCrashFresh(k int) {
	e := sc.env
	e.beginStep(Plan{}, "Spendable", "Probe", "Balance", "FeeEst")
	e.mu.Lock()
	e.crashAt = k + 1
	e.mu.Unlock()
	func() {
		defer func() { recover() }()
		switch sc.role {
		case "out_sender":
			sc.node.svc.SwapOut(sc.peer, sc.chain, sc.scid, sc.self, sc.amount, 10000)
		case "in_sender":
			sc.node.svc.SwapIn(sc.peer, sc.chain, sc.scid, sc.self, sc.amount, 10000)
		default:
			id := swap.NewSwapId()
			asset, network := sc.network()
			if sc.role == "out_receiver" {
				msg := &swap.SwapOutRequestMessage{ProtocolVersion: sc.version, SwapId: id, Asset: asset, Network: network, Scid: sc.scid, Amount: sc.amount, Pubkey: sc.peerPub(), PremiumLimit: 100000}
				sc.deliver(msg, messages.MESSAGETYPE_SWAPOUTREQUEST)()
			} else {
				msg := &swap.SwapInRequestMessage{ProtocolVersion: sc.version, SwapId: id, Asset: asset, Network: network, Scid: sc.scid, Amount: sc.amount, Pubkey: sc.peerPub(), PremiumLimit: 100000}
				sc.deliver(msg, messages.MESSAGETYPE_SWAPINREQUEST)()
			}
		}
	}()
	e.mu.Lock()
	e.crashAt = 0
	e.mu.Unlock()
	// the process is gone; what survives is the database
	if ms, err := sc.node.store.ListAll(); err == nil && len(ms) == 1 {
		sc.id = ms[0].SwapId
	}
	sc.held = nil
	sc.restartNode()
}

func init() {
	registerTail("C16", func(sc *Scen) { sc.settle(c16Rounds) })
	registerStepF4("settle", func(sc *Scen) { sc.settle(c16Rounds) })
	registerFreshStep("crash_fresh@")
	registerStepPrefix("crash_fresh@", func(sc *Scen, arg string) {
		k := 1
		fmt.Sscanf(arg, "%d", &k)
		sc.stepCrashFresh(k)
	})
	registerDirectedFor("C16",
		// D14: a swap-in requester restarted while waiting for the agreement
		directed{"in_sender", "btc", []string{"start", "settle"}},
		directed{"in_sender", "lbtc", []string{"start", "restart", "settle"}},
		// every other role stopped at its first wait
		directed{"out_sender", "btc", []string{"start", "settle"}},
		directed{"out_receiver", "btc", []string{"request", "settle"}},
		directed{"in_receiver", "btc", []string{"request", "settle"}},
		directed{"in_receiver", "lbtc", []string{"request", "settle"}},
		// later waits
		directed{"out_sender", "btc", []string{"start", "out_agreement", "settle"}},
		directed{"out_sender", "lbtc", []string{"start", "out_agreement", "otb", "settle"}},
		directed{"out_receiver", "lbtc", []string{"request", "paid_fee", "settle"}},
		directed{"in_sender", "btc", []string{"start", "in_agreement", "settle"}},
		directed{"in_sender", "lbtc", []string{"start", "in_agreement", "cancel", "settle"}},
		directed{"in_receiver", "btc", []string{"request", "otb", "settle"}},
		// makers pushed into WaitCsv / the CSV claim in every way
		directed{"out_receiver", "btc", []string{"request", "paid_fee", "cancel", "settle"}},
		directed{"out_receiver", "lbtc", []string{"request", "paid_fee", "cancel", "restart", "settle"}},
		directed{"in_sender", "btc", []string{"start", "in_agreement", "cancel", "csv", "settle"}},
		directed{"out_receiver", "btc", []string{"request", "paid_fee", "csv", "settle"}},
		// takers at every later wait
		directed{"out_sender", "btc", []string{"start", "out_agreement", "otb", "tx_confirmed", "settle"}},
		directed{"in_receiver", "lbtc", []string{"request", "otb", "restart", "settle"}},
		directed{"in_receiver", "btc", []string{"request", "otb", "tx_confirmed", "settle"}},
		// a record written by the very first store write of a swap (state "")
		directed{"out_sender", "btc", []string{"crash_fresh@1", "settle"}},
		directed{"in_sender", "lbtc", []string{"crash_fresh@1", "settle"}},
		directed{"out_receiver", "btc", []string{"crash_fresh@1", "settle"}},
		directed{"in_receiver", "btc", []string{"crash_fresh@1", "settle"}},
		// crash right after the request was built / sent
		directed{"out_sender", "btc", []string{"crash_fresh@3", "settle"}},
		directed{"in_sender", "btc", []string{"crash_fresh@4", "settle"}},
	)
}
