package main

// C06: directed scenarios (registered only for `-focus C06`): every known finding
// and every shape the property quantifies over (payment outcomes, timeouts at later
// points, claim-broadcast failures, crashes at the persistence / service-call points
// around the payment, then recovery).

import (
	"os"
	"strconv"
)

// slowScenarios: scenarios that sit through real backoff sleeps run only in large (thorough) runs
func slowScenarios() bool {
	for i, a := range os.Args {
		if a == "-n" && i+1 < len(os.Args) {
			n, _ := strconv.Atoi(os.Args[i+1])
			return n >= 500
		}
	}
	return false
}

func init() {
	if focusArg() != "C06" {
		return
	}
	osn, ir := "out_sender", "in_receiver"
	var ds []directed
	for _, chain := range []string{"lbtc", "btc"} {
		// D2: payment succeeded, the machine comes to rest in ClaimSwap (here: the store write of ClaimSwap fails;
		// in the field: 21 failed claim broadcasts, see the slow variant below), then the never-cancelled
		// negotiation timer fires
		ds = append(ds, directed{osn, chain, []string{"start", "out_agreement", "otb", "store=fail3:tx_confirmed", "timeout", "restart"}})
		// the same for the swap-in receiver (its ClaimSwap has no timeout edge)
		ds = append(ds, directed{ir, chain, []string{"request", "otb", "store=fail3:tx_confirmed", "timeout", "restart"}})
		if slowScenarios() {
			// claim broadcasts fail until the retries are exhausted (one real backoff sleep of up to 20 s), then the timer
			ds = append(ds, directed{osn, chain, []string{"start", "out_agreement", "otb", "retries=20:spend=fail1:tx_confirmed", "timeout", "restart"}})
			ds = append(ds, directed{ir, chain, []string{"request", "otb", "retries=20:spend=fail1:tx_confirmed", "timeout", "restart"}})
		}
		// D3: the only attempt errors while its HTLC is still in flight; the loop times out -> coop_close
		ds = append(ds, directed{osn, chain, []string{"start", "out_agreement", "otb", "pay=pending:tx_confirmed"}})
		ds = append(ds, directed{ir, chain, []string{"request", "otb", "pay=pending:tx_confirmed"}})
		// the tested behaviour: a definite failure, then coop_close
		ds = append(ds, directed{osn, chain, []string{"start", "out_agreement", "otb", "pay=fail:tx_confirmed"}})
		// first attempt fails for good, second succeeds; claim; later timeout and restart change nothing
		ds = append(ds, directed{osn, chain, []string{"start", "out_agreement", "otb", "pay=fail1:tx_confirmed", "timeout", "restart"}})
		// D4: the payment call returns success, the process dies before the store write (crash@4: persist, validate,
		// pay happened); the window closes; recovery from AwaitTxConfirmation fails the window check -> coop_close
		ds = append(ds, directed{osn, chain, []string{"start", "out_agreement", "otb", "crash@4:tx_confirmed", "tipstored=anchor+600", "restart"}})
		ds = append(ds, directed{ir, chain, []string{"request", "otb", "crash@4:tx_confirmed", "tipstored=anchor+600", "restart"}})
		// D4': the preimage is durable in the pay state, the process dies before ClaimSwap is stored (crash@5)
		ds = append(ds, directed{osn, chain, []string{"start", "out_agreement", "otb", "crash@5:tx_confirmed", "tipstored=anchor+600", "restart"}})
		// the same crashes with the window still open: recovery pays again (idempotent at the node) and claims
		ds = append(ds, directed{osn, chain, []string{"start", "out_agreement", "otb", "crash@4:tx_confirmed", "restart", "timeout"}})
		ds = append(ds, directed{osn, chain, []string{"start", "out_agreement", "otb", "crash@5:tx_confirmed", "restart", "timeout"}})
		// D4'': restart in the pay state, the validator errors
		ds = append(ds, directed{osn, chain, []string{"start", "out_agreement", "otb", "crash@5:tx_confirmed", "validate=err:restart"}})
		// crash after the claim state is durable / after the claim broadcast: recovery keeps claiming
		ds = append(ds, directed{osn, chain, []string{"start", "out_agreement", "otb", "crash@6:tx_confirmed", "spend=fail3:restart", "timeout"}})
		ds = append(ds, directed{osn, chain, []string{"start", "out_agreement", "otb", "crash@7:tx_confirmed", "restart", "timeout"}})
		ds = append(ds, directed{ir, chain, []string{"request", "otb", "crash@6:tx_confirmed", "tipstored=anchor+600", "spend=fail2:restart", "timeout", "restart"}})
		// store failure right after the payment, then a second confirmation callback / restart
		ds = append(ds, directed{osn, chain, []string{"start", "out_agreement", "otb", "store=fail2:tx_confirmed", "tipstored=anchor+600", "restart"}})
		// paid, at rest in ClaimSwap (in memory; the stored record is still the pay state): every kind of later input,
		// then a restart
		laterInputs := []string{"cancel", "coop", "csv", "paid_claim", "paid_fee", "tx_confirmed", "tx_confirmed_err", "otb", "duplicate", "out_agreement", "in_agreement"}
		if chain == "btc" {
			laterInputs = []string{"cancel", "tx_confirmed_err"} // the tables do not depend on the chain
		}
		for _, in := range laterInputs {
			ds = append(ds, directed{osn, chain, []string{"start", "out_agreement", "otb", "store=fail3:tx_confirmed", in, "timeout", "restart"}})
			ds = append(ds, directed{ir, chain, []string{"request", "otb", "store=fail3:tx_confirmed", in, "timeout", "restart"}})
		}
		// paid, the store write of the pay state fails: the machine rests in the PAY state (memory), the stored record
		// is AwaitTxConfirmation: every kind of later input (a second, failing, watcher callback is D4)
		restInputs := []string{"cancel", "coop", "csv", "tx_confirmed_err", "otb", "timeout"}
		if chain == "btc" {
			restInputs = []string{"cancel", "tx_confirmed_err"}
		}
		for _, in := range restInputs {
			ds = append(ds, directed{osn, chain, []string{"start", "out_agreement", "otb", "store=fail2:tx_confirmed", in, "restart"}})
			ds = append(ds, directed{ir, chain, []string{"request", "otb", "store=fail2:tx_confirmed", in, "restart"}})
		}
		// the claim state is durable (crash@7: the ClaimSwap record is written, the claim broadcast result is lost):
		// restarts keep claiming
		ds = append(ds, directed{ir, chain, []string{"request", "otb", "crash@7:tx_confirmed", "spend=fail1:restart"}})
		// ... also when the first broadcast failed and the process died in the retry (no claim txid is stored)
		ds = append(ds, directed{osn, chain, []string{"start", "out_agreement", "otb", "spend=fail1:crash@7:tx_confirmed", "restart", "timeout"}})
		ds = append(ds, directed{ir, chain, []string{"request", "otb", "spend=fail1:crash@7:tx_confirmed", "restart", "timeout"}})
	}
	registerDirected(ds...)
}
