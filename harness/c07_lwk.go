package main

// C07, LWK wallet: LWKRpcWallet.CreateAndBroadcastTransaction funds, signs and broadcasts the opening transaction
// through lwk and then fetches the raw transaction from electrum. psh lwkwallet runs the REAL adapter against a fake
// lwk JSON-RPC server and a fake electrum client with a failure injected at each of the four calls and records
// whether a transaction was broadcast and what the adapter reported: a maker whose wallet has broadcast the opening
// transaction must get that transaction back (C07: it must keep a record of what it funded).

import (
	"context"
	"encoding/json"
	"flag"
	"fmt"
	"net"
	"net/http"
	"os"
	"strings"
	"sync"

	goelectrum "github.com/checksum0/go-electrum/electrum"
	pslog "github.com/elementsproject/peerswap/log"
	"github.com/elementsproject/peerswap/lwk"
	"github.com/elementsproject/peerswap/swap"
)

type lwkFakeServer struct {
	mu        sync.Mutex
	failAt    string
	broadcast int
	txid      string
}

func (f *lwkFakeServer) ServeHTTP(w http.ResponseWriter, r *http.Request) {
	var req struct {
		Id     json.RawMessage `json:"id"`
		Method string          `json:"method"`
	}
	json.NewDecoder(r.Body).Decode(&req)
	f.mu.Lock()
	var result interface{}
	var rpcErr map[string]interface{}
	fail := func(step string) bool {
		if f.failAt == step {
			rpcErr = map[string]interface{}{"code": -32000, "message": "fake lwk: " + step + " failed"}
			return true
		}
		return false
	}
	switch req.Method {
	case "wallet_send_many":
		if !fail("send") {
			result = map[string]string{"pset": "cHNldP8BAgQCAAAA"}
		}
	case "signer_sign":
		if !fail("sign") {
			result = map[string]string{"pset": "cHNldP8BAgQCAAAAc2lnbmVk"}
		}
	case "wallet_broadcast":
		if !fail("broadcast") {
			f.broadcast++
			result = map[string]string{"txid": f.txid}
		}
	default:
		rpcErr = map[string]interface{}{"code": -32601, "message": "Method not found"}
	}
	f.mu.Unlock()
	resp := map[string]interface{}{"jsonrpc": "2.0", "id": req.Id}
	if rpcErr != nil {
		resp["error"] = rpcErr
	} else {
		resp["result"] = result
	}
	w.Header().Set("Content-Type", "application/json")
	json.NewEncoder(w).Encode(resp)
}

type lwkFakeElectrum struct {
	failFetch bool
	hex       string
}

func (e *lwkFakeElectrum) SubscribeHeaders(ctx context.Context) (<-chan *goelectrum.SubscribeHeadersResult, error) {
	return make(chan *goelectrum.SubscribeHeadersResult), nil
}
func (e *lwkFakeElectrum) GetHistory(ctx context.Context, scripthash string) ([]*goelectrum.GetMempoolResult, error) {
	return nil, nil
}
func (e *lwkFakeElectrum) GetRawTransaction(ctx context.Context, txHash string) (string, error) {
	if e.failFetch {
		return "", errFake
	}
	return e.hex, nil
}
func (e *lwkFakeElectrum) BroadcastTransaction(ctx context.Context, rawTx string) (string, error) {
	return "", errFake
}
func (e *lwkFakeElectrum) GetFee(ctx context.Context, target uint32) (float32, error) { return 0.00001, nil }
func (e *lwkFakeElectrum) Ping(ctx context.Context) error                              { return nil }
func (e *lwkFakeElectrum) Reboot(ctx context.Context) error                            { return nil }

func init() {
	register("lwkwallet", "LWKRpcWallet.CreateAndBroadcastTransaction against a fake lwk server / electrum with a failure at each call", runLwkWallet)
}

func runLwkWallet(args []string) error {
	fs := flag.NewFlagSet("lwkwallet", flag.ExitOnError)
	out := fs.String("out", "/verif/work/C07/lwkwallet", "output dir")
	seed := fs.Uint64("seed", 1, "seed")
	fs.Parse(args)
	pslog.SetLogger(quietLogger{})
	r := NewRng(*seed)
	if err := os.MkdirAll(*out, 0o755); err != nil {
		return err
	}
	cf := NewCaseFile("From PS Require Import Model.C07Lwk.", "lwk_case", "lwk_check", "lwk_monitor")
	srv := &lwkFakeServer{}
	ln, err := net.Listen("tcp", "127.0.0.1:0")
	if err != nil {
		return err
	}
	hs := &http.Server{Handler: srv}
	go hs.Serve(ln)
	defer hs.Close()
	endpoint := "http://" + ln.Addr().String()
	b, err := lwk.NewConfBuilder(lwk.NetworkRegtest).DefaultConf()
	if err != nil {
		return err
	}
	u, err := lwk.NewLWKURL(endpoint)
	if err != nil {
		return err
	}
	conf, err := b.SetLWKEndpoint(*u).SetLiquidSwaps(true).Build()
	if err != nil {
		return err
	}
	steps := []string{"none", "send", "sign", "broadcast", "fetch"}
	for rep := 0; rep < 3; rep++ {
		for code, failAt := range steps {
			txid := randHex(r, 32)
			hexTx := "0200" + randHex(r, 40)
			srv.mu.Lock()
			srv.failAt, srv.broadcast, srv.txid = failAt, 0, txid
			srv.mu.Unlock()
			el := &lwkFakeElectrum{failFetch: failAt == "fetch", hex: hexTx}
			w := lwk.VerifNewWallet(conf, el)
			gotTxid, gotHex, _, gerr := w.CreateAndBroadcastTransaction(&swap.OpeningParams{OpeningAddress: "el1qq" + strings.Repeat("q", 40), Amount: uint64(r.Range(100000, 5000000))}, nil)
			srv.mu.Lock()
			bc := srv.broadcast
			srv.mu.Unlock()
			reported := gerr == nil && gotTxid == txid && gotHex == hexTx
			term := fmt.Sprintf("mkLwkCase %d%%N %s %s %s", code, CoqBool(bc > 0), CoqBool(gerr == nil), CoqBool(reported))
			cf.Add(term, fmt.Sprintf("lwk|%s|%d", failAt, rep), true, "lwkwallet:fail-at-"+failAt,
				map[string]interface{}{"family": "lwkwallet", "failure_injected_at": failAt, "transactions_broadcast": bc,
					"adapter_returned_error": gerr != nil, "adapter_reported_the_broadcast_tx": reported})
		}
	}
	return cf.Write(*out, 100, map[string]interface{}{"seed": *seed})
}
