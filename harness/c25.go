package main

// C25 — policy changes apply immediately and survive a reload.
// Runs the REAL policy.Policy on temp files under the -out dir: generated
// pre-existing file contents, operation sequences (add/remove allowlisted and
// suspicious peers, disable/enable swaps, reload, restart, external edits),
// invalid inputs. After every step it records the in-memory policy, the file
// bytes, the real query functions and a fresh CreateFromFile of the file.

import (
	"errors"
	"flag"
	"fmt"
	"os"
	"path/filepath"
	"reflect"
	"runtime"
	"sort"
	"strings"

	"github.com/elementsproject/peerswap/policy"
	flags "github.com/jessevdk/go-flags"
)

// ---------- helpers on the real code

func c25TempFile(dir, name, content string) (string, error) {
	if err := os.MkdirAll(dir, 0o755); err != nil {
		return "", err
	}
	p := filepath.Join(dir, name)
	return p, os.WriteFile(p, []byte(content), 0o644)
}

// isValidPubkey is unexported; RemoveFromAllowlist checks it first and returns
// ErrNotAValidPublicKey exactly when it rejects.
func c25ValidPubkey(pol *policy.Policy, s string) bool {
	err := pol.RemoveFromAllowlist(s)
	var e policy.ErrNotAValidPublicKey
	return !errors.As(err, &e)
}

func c25PolTerm(g policy.Policy) string {
	return fmt.Sprintf("(mkPolicy %s %s %s %s %s %s)", CoqZu(g.ReserveOnchainMsat), CoqStrList(g.PeerAllowlist),
		CoqStrList(g.SuspiciousPeerList), CoqBool(g.AcceptAllPeers), CoqZu(g.MinSwapAmountMsat), CoqBool(g.AllowNewSwaps))
}

func c25PolJSON(g policy.Policy) map[string]interface{} {
	return map[string]interface{}{"reserve": g.ReserveOnchainMsat, "allow": append([]string{}, g.PeerAllowlist...),
		"susp": append([]string{}, g.SuspiciousPeerList...), "accept_all": g.AcceptAllPeers, "min": g.MinSwapAmountMsat, "new": g.AllowNewSwaps}
}

// ---------- Gen dump

func init() {
	registerDump("ConstsPolicy.v", func() (string, error) {
		dir, err := os.MkdirTemp("", "c25dump")
		if err != nil {
			return "", err
		}
		defer os.RemoveAll(dir)
		var b strings.Builder
		b.WriteString("From Coq Require Import String ZArith NArith List.\nFrom PS Require Import Base.Corr.\nImport ListNotations.\nOpen Scope string_scope.\n")
		// option groups and key table of the go-flags parser that policy.create builds
		pl := policy.DefaultPolicy()
		ps := flags.NewParser(pl, flags.Default|flags.IgnoreUnknown)
		groups := []string{}
		keys := []string{}
		kinds := []string{}
		first := ""
		for _, g := range ps.Groups() {
			groups = append(groups, CoqStr(g.ShortDescription))
			for _, o := range g.Options() {
				f := o.Field()
				if first == "" {
					first = f.Name
				}
				keys = append(keys, CoqPair(CoqStr(o.LongName), CoqStr(f.Name)), CoqPair(CoqStr(f.Name), CoqStr(f.Name)))
				kinds = append(kinds, CoqPair(CoqStr(f.Name), CoqStr(f.Type.String())))
			}
		}
		// the empty key matches the first option (ini-name tag comparison); confirmed by probing below
		keys = append(keys, CoqPair(CoqStr(""), CoqStr(first)))
		fmt.Fprintf(&b, "Definition policy_group_names : list string := %s.\n", CoqList(groups))
		fmt.Fprintf(&b, "Definition policy_keys : list (string * string) := %s.\n", CoqList(keys))
		fmt.Fprintf(&b, "Definition policy_field_kinds : list (string * string) := %s.\n", CoqList(kinds))
		// probe: every key of the table sets the field it names (value chosen by kind)
		for _, g := range ps.Groups() {
			for _, o := range g.Options() {
				for _, k := range []string{o.LongName, o.Field().Name} {
					val := "1"
					p, err := c25TempFile(dir, "probe.conf", k+"="+val+"\n")
					if err != nil {
						return "", err
					}
					np, err := policy.CreateFromFile(p)
					if err != nil {
						return "", fmt.Errorf("probe %s: %v", k, err)
					}
					got := reflect.ValueOf(np.Get()).FieldByName(o.Field().Name)
					def := reflect.ValueOf(policy.DefaultPolicy().Get()).FieldByName(o.Field().Name)
					if o.Field().Name != "AllowNewSwaps" && reflect.DeepEqual(got.Interface(), def.Interface()) {
						return "", fmt.Errorf("probe: key %q does not set %s", k, o.Field().Name)
					}
				}
			}
		}
		d := policy.DefaultPolicy().Get()
		fmt.Fprintf(&b, "Definition default_policy_reserve : Z := %s.\n", CoqZu(d.ReserveOnchainMsat))
		fmt.Fprintf(&b, "Definition default_policy_allow : list string := %s.\n", CoqStrList(d.PeerAllowlist))
		fmt.Fprintf(&b, "Definition default_policy_susp : list string := %s.\n", CoqStrList(d.SuspiciousPeerList))
		fmt.Fprintf(&b, "Definition default_policy_accept_all : bool := %s.\n", CoqBool(d.AcceptAllPeers))
		fmt.Fprintf(&b, "Definition default_policy_min_swap : Z := %s.\n", CoqZu(d.MinSwapAmountMsat))
		fmt.Fprintf(&b, "Definition default_policy_allow_new : bool := %s.\n", CoqBool(d.AllowNewSwaps))
		// the lines the operations write, observed on an empty file
		pk := strings.Repeat("ab", 33)
		lineOf := func(f func(p *policy.Policy) error) (string, error) {
			p, err := c25TempFile(dir, "line.conf", "")
			if err != nil {
				return "", err
			}
			np, err := policy.CreateFromFile(p)
			if err != nil {
				return "", err
			}
			if err := f(np); err != nil {
				return "", err
			}
			bs, err := os.ReadFile(p)
			return string(bs), err
		}
		la, err := lineOf(func(p *policy.Policy) error { return p.AddToAllowlist(pk) })
		if err != nil {
			return "", err
		}
		ls, err := lineOf(func(p *policy.Policy) error { return p.AddToSuspiciousPeerList(pk) })
		if err != nil {
			return "", err
		}
		lf, err := lineOf(func(p *policy.Policy) error { return p.DisableSwaps() })
		if err != nil {
			return "", err
		}
		lt, err := lineOf(func(p *policy.Policy) error {
			if err := p.DisableSwaps(); err != nil {
				return err
			}
			return p.EnableSwaps()
		})
		if err != nil {
			return "", err
		}
		if !strings.HasSuffix(la, pk+"\n") || !strings.HasSuffix(ls, pk+"\n") {
			return "", fmt.Errorf("unexpected line written: %q %q", la, ls)
		}
		fmt.Fprintf(&b, "Definition line_allow_prefix : string := %s.\n", CoqStr(strings.TrimSuffix(la, pk+"\n")))
		fmt.Fprintf(&b, "Definition line_susp_prefix : string := %s.\n", CoqStr(strings.TrimSuffix(ls, pk+"\n")))
		fmt.Fprintf(&b, "Definition file_after_disable : string := %s.\n", CoqStr(lf))
		fmt.Fprintf(&b, "Definition file_after_disable_enable : string := %s.\n", CoqStr(lt))
		// accepted pubkey lengths (0..140 of 'a') and accepted bytes (at position 0 of a valid key)
		p, err := c25TempFile(dir, "v.conf", "")
		if err != nil {
			return "", err
		}
		np, err := policy.CreateFromFile(p)
		if err != nil {
			return "", err
		}
		lens := []string{}
		for n := 0; n <= 140; n++ {
			if c25ValidPubkey(np, strings.Repeat("a", n)) {
				lens = append(lens, fmt.Sprintf("%d%%nat", n))
			}
		}
		alpha := []byte{}
		for c := 0; c < 256; c++ {
			if c25ValidPubkey(np, string([]byte{byte(c)})+strings.Repeat("a", 65)) {
				alpha = append(alpha, byte(c))
			}
		}
		fmt.Fprintf(&b, "Definition pubkey_lengths : list nat := %s.\n", CoqList(lens))
		fmt.Fprintf(&b, "Definition pubkey_alphabet : string := %s.\n", CoqStr(string(alpha)))
		return b.String(), nil
	})
	register("c25", "policy operations / INI parser / pubkey validation correspondence cases", runC25)
}

// ---------- generators

var c25Keys = []string{"aa", "bb", "cc", "dd", "0123456789abcdef"}

func c25PK(i int) string {
	u := c25Keys[i%len(c25Keys)]
	return "02" + strings.Repeat(u, 64/len(u))
}

func c25InvalidPK(r *Rng) string {
	v := c25PK(r.Intn(4))
	switch r.Intn(10) {
	case 0:
		return v[:65]
	case 1:
		return v + "a"
	case 2:
		return strings.ToUpper(v)
	case 3:
		return "g" + v[1:]
	case 4:
		return ""
	case 5:
		return v + "\n"
	case 6:
		return v[:40] + "\nallow_new_swaps=false\n" + v[:3]
	case 7:
		return " " + v[1:]
	case 8:
		return v[:64] + "=\""
	}
	return "foo"
}

// a Policy on its own empty file, used only to ask the real isValidPubkey
var c25Validator *policy.Policy

type c25Feat map[string]bool

func (f c25Feat) String() string {
	ks := []string{}
	for k := range f {
		ks = append(ks, k)
	}
	sort.Strings(ks)
	if len(ks) == 0 {
		return "canonical"
	}
	return strings.Join(ks, "+")
}

// one line of a pre-existing policy file (without terminator)
func c25Line(r *Rng, canonical bool, feat c25Feat) string {
	pk := c25PK(r.Intn(4))
	if canonical {
		switch r.Intn(9) {
		case 0, 1, 2:
			return "allowlisted_peers=" + pk
		case 3, 4:
			return "suspicious_peers=" + pk
		case 5:
			return "allow_new_swaps=" + PickS(r, []string{"true", "false"})
		case 6:
			return "accept_all_peers=" + PickS(r, []string{"true", "false", "false"})
		case 7:
			return PickS(r, []string{"min_swap_amount_msat=", "reserve_onchain_msat="}) + fmt.Sprint(r.Range(0, 200000000))
		}
		feat["comment"] = true
		return PickS(r, []string{"# allowlist", "; " + pk, "", "#allowlisted_peers=" + pk})
	}
	key := PickS(r, []string{"allowlisted_peers", "allowlisted_peers", "suspicious_peers"})
	switch r.Intn(16) {
	case 0, 1:
		feat["spaces"] = true
		return PickS(r, []string{" ", "", "\t"}) + key + PickS(r, []string{" = ", "= ", " =", "\t=\t"}) + pk + PickS(r, []string{"", " ", "\t"})
	case 2:
		feat["trailing-space"] = true
		return key + "=" + pk + PickS(r, []string{" ", "\t", "  "})
	case 3:
		feat["alias-key"] = true
		return map[string]string{"allowlisted_peers": "PeerAllowlist", "suspicious_peers": "SuspiciousPeerList"}[key] + "=" + pk
	case 4:
		feat["quoted"] = true
		return key + "=\"" + pk + "\""
	case 5:
		feat["bool-spelling"] = true
		return PickS(r, []string{"allow_new_swaps", "accept_all_peers", "AllowNewSwaps"}) + PickS(r, []string{"=", " = "}) +
			PickS(r, []string{"1", "0", "t", "f", "T", "F", "TRUE", "FALSE", "True", "False", "", "\"false\"", "\"\"", "true", "false"})
	case 6:
		feat["unknown-key"] = true
		return PickS(r, []string{"foo=bar", "Allowlisted_peers=" + pk, "allowlisted_peer=" + pk, "help=1", "path=/x", "allowlisted_peers.x=1"})
	case 7:
		feat["section"] = true
		return PickS(r, []string{"[foo]", "[ bar ]", " [x.y] ", "[Application]", "[options]"})
	case 8:
		feat["odd-list-value"] = true
		return key + "=" + PickS(r, []string{"", "foo", pk + pk, strings.ToUpper(pk), pk[:65], "a=b", "\"a b\"", "x;y", "\xc3\xa9"})
	case 9:
		feat["numbers"] = true
		return PickS(r, []string{"min_swap_amount_msat", "reserve_onchain_msat", "MinSwapAmountMsat", ""}) + "=" +
			PickS(r, []string{"0", "1", "007", "18446744073709551615", "100000000", "99999999", "4294967296"})
	case 10:
		feat["bad-line"] = true
		return PickS(r, []string{"garbage", "allow_new_swaps=maybe", "[", "[]", "[ ]", "[foo", "x=\"a", "x=\"", "x=\"a\"b\"", "min_swap_amount_msat=-1",
			"min_swap_amount_msat=18446744073709551616", "min_swap_amount_msat=", "reserve_onchain_msat=1_0", "=x", "accept_all_peers=yes", "min_swap_amount_msat=+5",
			"min_swap_amount_msat=1e3", "allow_new_swaps=TRUe"})
	case 11:
		feat["ws-line"] = true
		return PickS(r, []string{" ", "\t", "  \t ", "\v", "\f"})
	case 12:
		feat["comment"] = true
		return PickS(r, []string{"  # indented", "\t; x=1", "#[sec]", ";"})
	case 13:
		feat["dup"] = true
		return key + "=" + c25PK(0)
	case 14:
		feat["inner-ws"] = true
		return key + "=" + pk[:10] + PickS(r, []string{" ", "\t", "\v"}) + pk[10:]
	}
	feat["flag-repeat"] = true
	return "allow_new_swaps=" + PickS(r, []string{"true", "false"})
}

func c25File(r *Rng) (string, c25Feat) {
	feat := c25Feat{}
	mode := r.Intn(10)
	canonical := mode < 4
	n := r.Intn(7)
	if mode == 9 {
		n = 0
	}
	var b strings.Builder
	for i := 0; i < n; i++ {
		canon := canonical || r.Chance(60)
		b.WriteString(c25Line(r, canon, feat))
		last := i == n-1
		switch {
		case last && r.Chance(25):
			feat["no-final-newline"] = true
		case !canonical && r.Chance(15):
			feat["crlf"] = true
			b.WriteString("\r\n")
		default:
			b.WriteString("\n")
		}
	}
	s := b.String()
	if s == "" || strings.HasSuffix(s, "\n") {
		delete(feat, "no-final-newline")
	}
	return s, feat
}

type c25Op struct {
	Op  string `json:"op"`
	Arg string `json:"arg"`
}

func c25GenOp(r *Rng, cur *policy.Policy, canonFile bool) c25Op {
	g := cur.Get()
	pickPresent := func(l []string) (string, bool) {
		if len(l) == 0 {
			return "", false
		}
		return l[r.Intn(len(l))], true
	}
	k := r.Intn(100)
	switch {
	case k < 18:
		return c25Op{"add_allow", c25PK(r.Intn(5))}
	case k < 32:
		if v, ok := pickPresent(g.PeerAllowlist); ok && r.Chance(75) {
			return c25Op{"rem_allow", v}
		}
		return c25Op{"rem_allow", c25PK(r.Intn(5))}
	case k < 44:
		return c25Op{"add_susp", c25PK(r.Intn(5))}
	case k < 54:
		if v, ok := pickPresent(g.SuspiciousPeerList); ok && r.Chance(75) {
			return c25Op{"rem_susp", v}
		}
		return c25Op{"rem_susp", c25PK(r.Intn(5))}
	case k < 62:
		return c25Op{"disable", ""}
	case k < 70:
		return c25Op{"enable", ""}
	case k < 76:
		return c25Op{"reload", ""}
	case k < 81:
		return c25Op{"restart", ""}
	case k < 90:
		return c25Op{PickS(r, []string{"add_allow", "rem_allow", "add_susp", "rem_susp"}), c25InvalidPK(r)}
	case k < 93:
		// duplicate addition
		if v, ok := pickPresent(g.PeerAllowlist); ok {
			return c25Op{"add_allow", v}
		}
		if v, ok := pickPresent(g.SuspiciousPeerList); ok {
			return c25Op{"add_susp", v}
		}
		return c25Op{"add_allow", c25PK(0)}
	}
	// the operator edits the file (then usually reloads)
	s, _ := c25File(r)
	return c25Op{"ext_write", s}
}

func c25OpTerm(o c25Op) string {
	switch o.Op {
	case "add_allow":
		return "(OAddAllow " + CoqStr(o.Arg) + ")"
	case "rem_allow":
		return "(ORemAllow " + CoqStr(o.Arg) + ")"
	case "add_susp":
		return "(OAddSusp " + CoqStr(o.Arg) + ")"
	case "rem_susp":
		return "(ORemSusp " + CoqStr(o.Arg) + ")"
	case "disable":
		return "ODisable"
	case "enable":
		return "OEnable"
	case "reload":
		return "OReload"
	case "restart":
		return "ORestart"
	case "ext_write":
		return "(OExtWrite " + CoqStr(o.Arg) + ")"
	}
	panic("op " + o.Op)
}

func c25Contains(l []string, s string) bool {
	for _, x := range l {
		if x == s {
			return true
		}
	}
	return false
}

// a line of the file that the INI reader reads as key=pk (or alias=pk) but that is
// not byte-identical to "key=pk" (the only form removeLineFromFile matches)
func c25OddLineFor(file, key, alias, pk string) bool {
	for _, l := range strings.Split(file, "\n") {
		l = strings.TrimSuffix(l, "\r")
		if l == key+"="+pk {
			continue
		}
		kv := strings.SplitN(strings.TrimSpace(l), "=", 2)
		if len(kv) != 2 {
			continue
		}
		k, v := strings.TrimSpace(kv[0]), strings.TrimSpace(kv[1])
		if len(v) >= 2 && v[0] == '"' && v[len(v)-1] == '"' {
			v = v[1 : len(v)-1]
		}
		if (k == key || k == alias) && v == pk {
			return true
		}
	}
	return false
}

func c25HasSection(file string) bool {
	for _, l := range strings.Split(file, "\n") {
		if strings.HasPrefix(strings.TrimSpace(l), "[") {
			return true
		}
	}
	return false
}

// runs one sequence on the real code; returns the Coq term, the JSON form and the result kinds
func c25RunSeq(dir string, f0 string, ops []c25Op, gen func(cur *policy.Policy) c25Op, nops int) (string, map[string]interface{}, []string, error) {
	path, err := c25TempFile(dir, "policy.conf", f0)
	if err != nil {
		return "", nil, nil, err
	}
	defer os.RemoveAll(dir)
	js := map[string]interface{}{"fam": "seq", "file": f0}
	kinds := []string{}
	cur, err := policy.CreateFromFile(path)
	if err != nil {
		js["init_err"] = true
		js["steps"] = []interface{}{}
		return fmt.Sprintf("CSeq %s None []", CoqStr(f0)), js, []string{"init:err"}, nil
	}
	kinds = append(kinds, "init:ok")
	initTerm := c25PolTerm(cur.Get())
	js["init"] = c25PolJSON(cur.Get())
	steps := []string{}
	jsteps := []interface{}{}
	usedOps := []c25Op{}
	for i := 0; i < nops; i++ {
		var o c25Op
		if ops != nil {
			if i >= len(ops) {
				break
			}
			o = ops[i]
		} else {
			o = gen(cur)
		}
		usedOps = append(usedOps, o)
		fb, _ := os.ReadFile(path)
		var oerr error
		switch o.Op {
		case "add_allow":
			oerr = cur.AddToAllowlist(o.Arg)
		case "rem_allow":
			oerr = cur.RemoveFromAllowlist(o.Arg)
		case "add_susp":
			oerr = cur.AddToSuspiciousPeerList(o.Arg)
		case "rem_susp":
			oerr = cur.RemoveFromSuspiciousPeerList(o.Arg)
		case "disable":
			oerr = cur.DisableSwaps()
		case "enable":
			oerr = cur.EnableSwaps()
		case "reload":
			oerr = cur.ReloadFile()
		case "restart":
			// a restart builds a new Policy from the file; when that fails the node does not start
			// and the harness keeps the previous object
			np, e := policy.CreateFromFile(path)
			if e != nil {
				oerr = e
			} else {
				cur = np
			}
		case "ext_write":
			if e := os.WriteFile(path, []byte(o.Arg), 0o644); e != nil {
				return "", nil, nil, e
			}
		default:
			return "", nil, nil, fmt.Errorf("unknown op %q", o.Op)
		}
		after := cur.Get()
		fa, e := os.ReadFile(path)
		if e != nil {
			return "", nil, nil, e
		}
		// "the next request": the real query functions
		qarg := o.Arg
		if o.Op == "ext_write" {
			qarg = "" // not a peer operation: the model queries the empty string
		}
		allowed := cur.IsPeerAllowed(qarg)
		susp := cur.IsPeerSuspicious(qarg)
		newSwaps := cur.NewSwapsAllowed()
		// a restart / reload of the file as it is now
		probe, perr := policy.CreateFromFile(path)
		reload := "None"
		var jreload interface{}
		if perr == nil {
			reload = "(Some " + c25PolTerm(probe.Get()) + ")"
			jreload = c25PolJSON(probe.Get())
		}
		steps = append(steps, fmt.Sprintf("(%s, mkObs %s %s %s %s %s %s %s)", c25OpTerm(o), CoqBool(oerr != nil), c25PolTerm(after),
			CoqStr(string(fa)), reload, CoqBool(allowed), CoqBool(susp), CoqBool(newSwaps)))
		// diagnostics used only to classify a monitor violation into a finding signature
		diag := ""
		glued := len(fb) > 0 && fb[len(fb)-1] != '\n'
		sect := c25HasSection(string(fb))
		changedFile := string(fa) != string(fb)
		switch o.Op {
		case "rem_allow":
			if oerr == nil && c25Contains(after.PeerAllowlist, o.Arg) && c25OddLineFor(string(fb), "allowlisted_peers", "PeerAllowlist", o.Arg) {
				diag = "remove-reports-success-peer-stays"
			}
		case "rem_susp":
			if oerr == nil && c25Contains(after.SuspiciousPeerList, o.Arg) && c25OddLineFor(string(fb), "suspicious_peers", "SuspiciousPeerList", o.Arg) {
				diag = "remove-reports-success-peer-stays"
			}
		case "add_allow", "add_susp", "disable", "enable":
			ineffective := oerr != nil && changedFile
			if oerr == nil {
				switch o.Op {
				case "add_allow":
					ineffective = !c25Contains(after.PeerAllowlist, o.Arg)
				case "add_susp":
					ineffective = !c25Contains(after.SuspiciousPeerList, o.Arg)
				case "disable":
					ineffective = after.AllowNewSwaps
				case "enable":
					ineffective = !after.AllowNewSwaps
				}
			}
			isAdd := o.Op == "add_allow" || o.Op == "add_susp"
			if ineffective && oerr == nil && sect {
				diag = "append-lands-in-ignored-section"
			} else if isAdd && changedFile && glued && ineffective && strings.HasPrefix(string(fa), string(fb)) {
				// the line was appended directly behind the unterminated last line
				diag = "append-glued-to-unterminated-last-line"
			}
		}
		kind := o.Op
		if o.Op != "ext_write" && o.Op != "reload" && o.Op != "restart" && o.Op != "disable" && o.Op != "enable" {
			if !c25ValidPubkey(c25Validator, o.Arg) {
				kind += ":invalid"
			}
		}
		if oerr != nil {
			kind += ":err"
		} else if !changedFile && o.Op != "reload" && o.Op != "restart" {
			kind += ":nop"
		} else {
			kind += ":ok"
		}
		if diag != "" {
			kind += ":" + diag
		}
		kinds = append(kinds, kind)
		jsteps = append(jsteps, map[string]interface{}{"op": o.Op, "arg": o.Arg, "err": oerr != nil, "mem": c25PolJSON(after), "file": string(fa),
			"reload": jreload, "allowed": allowed, "suspicious": susp, "new_swaps": newSwaps, "diag": diag})
	}
	js["ops"] = usedOps
	js["steps"] = jsteps
	return fmt.Sprintf("CSeq %s (Some %s) %s", CoqStr(f0), initTerm, CoqList(steps)), js, kinds, nil
}

func runC25(args []string) error {
	fs := flag.NewFlagSet("c25", flag.ExitOnError)
	out := fs.String("out", "/verif/work/C25", "output dir")
	seed := fs.Uint64("seed", 1, "seed")
	n := fs.Int("n", 400, "operation sequences")
	fs.Parse(args)
	r := NewRng(*seed)
	tmp := filepath.Join(*out, "files")
	os.RemoveAll(tmp)
	defer os.RemoveAll(tmp)

	vp, err := c25TempFile(filepath.Join(tmp, "v"), "policy.conf", "")
	if err != nil {
		return err
	}
	c25Validator, err = policy.CreateFromFile(vp)
	if err != nil {
		return err
	}

	cf := NewCaseFile("From PS Require Import Model.Ini Model.Policy Model.C25Corr.", "c25_case", "c25_check", "c25_monitor")
	opKinds := map[string]int{}

	addSeq := func(i int, f0 string, feat c25Feat, ops []c25Op, nops int, label string) error {
		canon := len(feat) == 0
		term, js, kinds, err := c25RunSeq(filepath.Join(tmp, fmt.Sprintf("c%d", i)), f0, ops,
			func(cur *policy.Policy) c25Op { return c25GenOp(r, cur, canon) }, nops)
		if err != nil {
			return err
		}
		for _, k := range kinds {
			opKinds[k]++
		}
		js["features"] = feat.String()
		key, _ := js["ops"]
		nontriv := false
		for _, k := range kinds {
			if !strings.HasPrefix(k, "init") {
				nontriv = true
			}
		}
		cf.Add(term, fmt.Sprintf("seq|%s|%v", f0, key), nontriv, label+":"+feat.String(), js)
		if i%50 == 0 {
			runtime.GC() // ReloadFile/CreateFromFile leave a file handle to the finalizer
		}
		return nil
	}

	// fixed corpus: the file shapes DESIGN.md D22 talks about, plus plain ones
	pkA, pkB := c25PK(0), c25PK(1)
	corpus := []struct {
		file string
		ops  []c25Op
	}{
		{"", []c25Op{{"add_allow", pkA}, {"add_allow", pkA}, {"rem_allow", pkA}, {"rem_allow", pkA}, {"disable", ""}, {"disable", ""}, {"enable", ""}, {"restart", ""}}},
		{"allowlisted_peers=" + pkA + "\n", []c25Op{{"rem_allow", pkA}, {"add_susp", pkA}, {"rem_susp", pkA}}},
		{"allowlisted_peers = " + pkA + "\n", []c25Op{{"rem_allow", pkA}}},
		{"PeerAllowlist=" + pkA + "\n", []c25Op{{"rem_allow", pkA}}},
		{"suspicious_peers=\"" + pkA + "\"\n", []c25Op{{"rem_susp", pkA}}},
		{"allowlisted_peers=" + pkA, []c25Op{{"add_allow", pkB}}},
		{"allow_new_swaps=true", []c25Op{{"add_allow", pkB}, {"restart", ""}}},
		{"allow_new_swaps=true", []c25Op{{"disable", ""}}},
		{"[extra]\n", []c25Op{{"add_allow", pkA}, {"disable", ""}}},
		{"allowlisted_peers=" + pkA + "\r\n", []c25Op{{"rem_allow", pkA}}},
	}
	idx := 0
	for _, c := range corpus {
		feat := c25Feat{"corpus": true}
		if err := addSeq(idx, c.file, feat, c.ops, len(c.ops), "seq"); err != nil {
			return err
		}
		idx++
	}
	for i := 0; i < *n; i++ {
		f0, feat := c25File(r)
		if err := addSeq(idx, f0, feat, nil, 3+r.Intn(8), "seq"); err != nil {
			return err
		}
		idx++
	}

	// parser family: many more generated files, only CreateFromFile
	for i := 0; i < 2*(*n); i++ {
		var f0 string
		feat := c25Feat{}
		if r.Chance(50) {
			// a single odd line
			f0 = c25Line(r, false, feat) + PickS(r, []string{"\n", "", "\r\n", "\n\n"})
		} else {
			f0, feat = c25File(r)
		}
		path, err := c25TempFile(filepath.Join(tmp, "p"), "policy.conf", f0)
		if err != nil {
			return err
		}
		np, perr := policy.CreateFromFile(path)
		obs := "None"
		var jo interface{}
		kind := "parse:err"
		if perr == nil {
			obs = "(Some " + c25PolTerm(np.Get()) + ")"
			jo = c25PolJSON(np.Get())
			kind = "parse:ok"
		}
		cf.Add(fmt.Sprintf("CParse %s %s", CoqStr(f0), obs), "parse|"+f0, f0 != "", kind+":"+feat.String(),
			map[string]interface{}{"fam": "parse", "file": f0, "policy": jo, "features": feat.String()})
		if i%50 == 0 {
			runtime.GC()
		}
	}

	// pubkey validation family
	vpol := c25Validator
	for i := 0; i < *n/2; i++ {
		var s string
		switch r.Intn(4) {
		case 0:
			s = c25PK(r.Intn(5))
		case 1:
			s = c25InvalidPK(r)
		case 2:
			s = strings.Repeat(PickS(r, []string{"a", "0", "f", "9", "g", "A", "/", ":", "`", "G"}), int(r.Range(64, 68)))
		default:
			bs := []byte(c25PK(r.Intn(5)))
			bs[r.Intn(len(bs))] = byte(r.Intn(256))
			s = string(bs)
		}
		ok := c25ValidPubkey(vpol, s)
		cf.Add(fmt.Sprintf("CValid %s %s", CoqStr(s), CoqBool(ok)), "valid|"+s, true, fmt.Sprintf("valid:%v", ok),
			map[string]interface{}{"fam": "valid", "in": s, "ok": ok})
	}
	return cf.Write(*out, 40, map[string]interface{}{"seed": *seed, "op_kinds": opKinds})
}
