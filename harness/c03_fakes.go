package main

// Fake wallet back-ends shared by C03 (spending transactions) and C08 (opening
// transaction): a fake lightningd JSON-RPC socket + fake bitcoind HTTP RPC for
// the real clightning.ClightningClient wallet adapter, and fake gRPC clients
// for the real lnd.Client wallet adapter.  The fakes fund an opening
// transaction with a configurable layout (number of inputs, position of the
// swap output among change outputs, change of equal amount) and record every
// transaction handed to them for broadcast.

import (
	"bufio"
	"bytes"
	"context"
	"encoding/base64"
	"encoding/hex"
	"encoding/json"
	"errors"
	"fmt"
	"io"
	"net"
	"net/http"
	"os"
	"path/filepath"
	"regexp"
	"strconv"
	"sync"

	"github.com/btcsuite/btcd/btcutil"
	"github.com/btcsuite/btcd/btcutil/psbt"
	"github.com/btcsuite/btcd/chaincfg"
	"github.com/btcsuite/btcd/chaincfg/chainhash"
	"github.com/btcsuite/btcd/txscript"
	"github.com/btcsuite/btcd/wire"
	"github.com/elementsproject/glightning/gbitcoin"
	"github.com/elementsproject/peerswap/clightning"
	pslnd "github.com/elementsproject/peerswap/lnd"
	"github.com/elementsproject/peerswap/onchain"
	"github.com/lightningnetwork/lnd/lnrpc"
	"github.com/lightningnetwork/lnd/lnrpc/walletrpc"
	"google.golang.org/grpc"
)

var c03Net = &chaincfg.RegressionNetParams

// c03OutSpec describes one output of the funding transaction the fake wallet
// produces: the requested swap output, or a change output.
type c03OutSpec struct {
	Swap   bool   // the output the node asked for (address, amount of the request)
	Amount int64  // change amount (ignored for the swap output)
	Script []byte // change script
}

// c03WalletCfg is the per-case behaviour of the fake wallet (both back-ends).
type c03WalletCfg struct {
	Addr        string // answer to newaddr / NewAddress
	AddrFail    bool
	BcastFail   bool
	FundFail    bool
	NIn         int
	InValue     int64 // value of each funding input
	Layout      []c03OutSpec
	DropRequest bool // wallet ignores the requested output (misbehaving wallet)
	// the first funding input is a nested (P2SH-P2WPKH) output, so that signing (LND: FinalizePsbt, CLN: txsend) adds a
	// scriptSig and the id of the final transaction differs from the id of the unsigned one
	NestedInput bool
}

// c03WalletObs is what the fake wallet saw.
type c03WalletObs struct {
	AddrTypes  []string // address types requested
	Broadcasts [][]byte // raw transactions handed over for broadcast
	FundAddr   string   // address of the funding request
	FundAmount uint64
	Funded     *wire.MsgTx // the unsigned funded transaction handed to the node
	Final      *wire.MsgTx // LND: the finalized transaction the wallet returned (its id differs from Funded's when an input needs a scriptSig)
	Prepared   int
}

type c03Wallet struct {
	mu  sync.Mutex
	cfg c03WalletCfg
	obs c03WalletObs
	seq uint32
	// CLN prepared transactions by txid
	prepared map[string]*wire.MsgTx
}

func (w *c03Wallet) reset(cfg c03WalletCfg) {
	w.mu.Lock()
	defer w.mu.Unlock()
	w.cfg = cfg
	w.obs = c03WalletObs{}
	w.prepared = map[string]*wire.MsgTx{}
}

func (w *c03Wallet) observed() c03WalletObs {
	w.mu.Lock()
	defer w.mu.Unlock()
	return w.obs
}

// fund builds the unsigned funding transaction and its PSBT for a request.
func (w *c03Wallet) fund(addr string, amount uint64) (*wire.MsgTx, *psbt.Packet, error) {
	if w.cfg.FundFail {
		return nil, nil, errors.New("fake wallet: insufficient funds")
	}
	a, err := btcutil.DecodeAddress(addr, c03Net)
	if err != nil {
		return nil, nil, err
	}
	swapScript, err := txscript.PayToAddrScript(a)
	if err != nil {
		return nil, nil, err
	}
	tx := wire.NewMsgTx(2)
	nin := w.cfg.NIn
	if nin < 1 {
		nin = 1
	}
	for i := 0; i < nin; i++ {
		w.seq++
		var h chainhash.Hash
		h[0], h[1], h[2], h[3], h[31] = byte(w.seq), byte(w.seq>>8), byte(w.seq>>16), byte(w.seq>>24), 0x77
		in := wire.NewTxIn(wire.NewOutPoint(&h, uint32(i)), nil, nil)
		in.Sequence = 0xfffffffd
		tx.AddTxIn(in)
	}
	layout := w.cfg.Layout
	if len(layout) == 0 {
		layout = []c03OutSpec{{Swap: true}}
	}
	for _, o := range layout {
		if o.Swap {
			if w.cfg.DropRequest {
				continue
			}
			tx.AddTxOut(wire.NewTxOut(int64(amount), swapScript))
		} else {
			tx.AddTxOut(wire.NewTxOut(o.Amount, o.Script))
		}
	}
	p, err := psbt.NewFromUnsignedTx(tx)
	if err != nil {
		return nil, nil, err
	}
	inScript := append([]byte{0x00, 0x14}, bytes.Repeat([]byte{0x42}, 20)...)
	for i := range p.Inputs {
		p.Inputs[i].WitnessUtxo = wire.NewTxOut(w.cfg.InValue, inScript)
	}
	w.obs.FundAddr, w.obs.FundAmount, w.obs.Funded = addr, amount, tx
	w.obs.Prepared++
	return tx, p, nil
}

// signed returns the transaction with dummy P2WPKH witnesses (the txid does not change).
func c03Signed(tx *wire.MsgTx) *wire.MsgTx {
	s := tx.Copy()
	for _, in := range s.TxIn {
		in.Witness = wire.TxWitness{bytes.Repeat([]byte{0x30}, 71), bytes.Repeat([]byte{0x02}, 33)}
	}
	return s
}

func c03TxBytes(tx *wire.MsgTx) []byte {
	var b bytes.Buffer
	tx.Serialize(&b)
	return b.Bytes()
}

// ---------------------------------------------------------------- fake lightningd + bitcoind (CLN back-end)

type c03Cln struct {
	w    *c03Wallet
	ln   net.Listener
	http *http.Server
	port int
	dir  string
}

var c03OutRe = regexp.MustCompile(`^\{"([^"]+)":"(\d+)sat"\}$`)

func (f *c03Cln) serve(conn net.Conn) {
	defer conn.Close()
	dec := json.NewDecoder(bufio.NewReader(conn))
	for {
		var req struct {
			Id     json.RawMessage `json:"id"`
			Method string          `json:"method"`
			Params json.RawMessage `json:"params"`
		}
		if err := dec.Decode(&req); err != nil {
			return
		}
		var pm map[string]json.RawMessage
		json.Unmarshal(req.Params, &pm)
		w := f.w
		w.mu.Lock()
		var result interface{}
		var rpcErr map[string]interface{}
		fail := func(msg string) { rpcErr = map[string]interface{}{"code": -1, "message": msg} }
		switch req.Method {
		case "newaddr":
			var t string
			json.Unmarshal(pm["addresstype"], &t)
			w.obs.AddrTypes = append(w.obs.AddrTypes, t)
			if w.cfg.AddrFail {
				fail("fake: no address")
			} else {
				result = map[string]interface{}{"bech32": w.cfg.Addr}
			}
		case "txprepare":
			var outs []json.RawMessage
			json.Unmarshal(pm["outputs"], &outs)
			if len(outs) != 1 {
				fail("fake: expected one output")
				break
			}
			m := c03OutRe.FindStringSubmatch(string(bytes.ReplaceAll(outs[0], []byte(" "), nil)))
			if m == nil {
				fail("fake: cannot parse output " + string(outs[0]))
				break
			}
			amt, _ := strconv.ParseUint(m[2], 10, 64)
			tx, p, err := w.fund(m[1], amt)
			if err != nil {
				fail(err.Error())
				break
			}
			b64, _ := p.B64Encode()
			w.prepared[tx.TxHash().String()] = tx
			result = map[string]interface{}{"psbt": b64, "unsigned_tx": hex.EncodeToString(c03TxBytes(tx)), "txid": tx.TxHash().String()}
		case "setpsbtversion":
			var s string
			json.Unmarshal(pm["psbt"], &s)
			result = map[string]interface{}{"psbt": s}
		case "txsend":
			var id string
			json.Unmarshal(pm["txid"], &id)
			tx, ok := w.prepared[id]
			if !ok || w.cfg.BcastFail {
				fail("fake: txsend failed")
				break
			}
			s := c03Signed(tx)
			if w.cfg.NestedInput && len(s.TxIn) > 0 {
				// lightningd funded with a p2sh-wrapped segwit output: signing adds a scriptSig, the id of the
				// transaction that is sent differs from the id txprepare reported
				s.TxIn[0].SignatureScript = append([]byte{0x16, 0x00, 0x14}, bytes.Repeat([]byte{0x5a}, 20)...)
			}
			w.obs.Final = s
			w.obs.Broadcasts = append(w.obs.Broadcasts, c03TxBytes(s))
			result = map[string]interface{}{"psbt": "", "tx": hex.EncodeToString(c03TxBytes(s)), "txid": s.TxHash().String()}
		default:
			fail("Unknown command " + req.Method)
		}
		w.mu.Unlock()
		resp := map[string]interface{}{"jsonrpc": "2.0", "id": req.Id}
		if rpcErr != nil {
			resp["error"] = rpcErr
		} else {
			resp["result"] = result
		}
		out, _ := json.Marshal(resp)
		if _, err := conn.Write(append(out, '\n', '\n')); err != nil {
			return
		}
	}
}

// bitcoind: echo, sendrawtransaction
func (f *c03Cln) handleBitcoind(rw http.ResponseWriter, r *http.Request) {
	body, _ := io.ReadAll(r.Body)
	var req struct {
		Id     json.RawMessage `json:"id"`
		Method string          `json:"method"`
		Params json.RawMessage `json:"params"`
	}
	json.Unmarshal(body, &req)
	resp := map[string]interface{}{"jsonrpc": "2.0", "id": req.Id}
	w := f.w
	w.mu.Lock()
	switch req.Method {
	case "echo":
		resp["result"] = []string{}
	case "sendrawtransaction":
		var s string
		var arr []json.RawMessage
		var pm map[string]json.RawMessage
		if json.Unmarshal(req.Params, &arr) == nil && len(arr) > 0 {
			json.Unmarshal(arr[0], &s)
		} else if json.Unmarshal(req.Params, &pm) == nil {
			json.Unmarshal(pm["hexstring"], &s)
		}
		raw, err := hex.DecodeString(s)
		tx := wire.NewMsgTx(2)
		if err == nil {
			err = tx.Deserialize(bytes.NewReader(raw))
		}
		if err != nil || w.cfg.BcastFail {
			resp["error"] = map[string]interface{}{"code": -26, "message": "fake: rejected"}
		} else {
			w.obs.Broadcasts = append(w.obs.Broadcasts, raw)
			resp["result"] = tx.TxHash().String()
		}
	default:
		resp["error"] = map[string]interface{}{"code": -32601, "message": "Method not found"}
	}
	w.mu.Unlock()
	out, _ := json.Marshal(resp)
	rw.Header().Set("Content-Type", "application/json")
	rw.Write(out)
}

func c03StartCln(dir string, w *c03Wallet) (*c03Cln, error) {
	path := filepath.Join(dir, "lightning-rpc")
	os.Remove(path)
	ln, err := net.Listen("unix", path)
	if err != nil {
		return nil, err
	}
	f := &c03Cln{w: w, ln: ln, dir: dir}
	go func() {
		for {
			c, err := ln.Accept()
			if err != nil {
				return
			}
			go f.serve(c)
		}
	}()
	hl, err := net.Listen("tcp", "127.0.0.1:0")
	if err != nil {
		return nil, err
	}
	f.port = hl.Addr().(*net.TCPAddr).Port
	mux := http.NewServeMux()
	mux.HandleFunc("/", f.handleBitcoind)
	f.http = &http.Server{Handler: mux}
	go f.http.Serve(hl)
	return f, nil
}

func (f *c03Cln) stop() {
	f.ln.Close()
	f.http.Close()
}

// c03NewClnClient builds the real ClightningClient wallet adapter over the fakes.
func c03NewClnClient(f *c03Cln, version string, chain *onchain.BitcoinOnChain) (*clightning.ClightningClient, error) {
	bc := gbitcoin.NewBitcoin("user", "pass", "")
	if err := bc.StartUp("http://127.0.0.1", f.dir, uint(f.port)); err != nil {
		return nil, fmt.Errorf("fake bitcoind: %w", err)
	}
	return clightning.VerifNewWalletClient(f.dir, "lightning-rpc", version, bc, chain)
}

// ---------------------------------------------------------------- fake lnd (LND back-end)

type c03LndWalletKit struct {
	walletrpc.WalletKitClient // nil: any other RPC panics (none is used on these paths)
	w                         *c03Wallet
}

func (f *c03LndWalletKit) FundPsbt(ctx context.Context, in *walletrpc.FundPsbtRequest, opts ...grpc.CallOption) (*walletrpc.FundPsbtResponse, error) {
	w := f.w
	w.mu.Lock()
	defer w.mu.Unlock()
	raw := in.GetRaw()
	if raw == nil || len(raw.Outputs) != 1 {
		return nil, errors.New("fake: expected a raw template with one output")
	}
	for addr, amt := range raw.Outputs {
		_, p, err := w.fund(addr, amt)
		if err != nil {
			return nil, err
		}
		var b bytes.Buffer
		if err := p.Serialize(&b); err != nil {
			return nil, err
		}
		return &walletrpc.FundPsbtResponse{FundedPsbt: b.Bytes(), ChangeOutputIndex: -1}, nil
	}
	return nil, errors.New("unreachable")
}

func (f *c03LndWalletKit) FinalizePsbt(ctx context.Context, in *walletrpc.FinalizePsbtRequest, opts ...grpc.CallOption) (*walletrpc.FinalizePsbtResponse, error) {
	w := f.w
	w.mu.Lock()
	defer w.mu.Unlock()
	p, err := psbt.NewFromRawBytes(bytes.NewReader(in.FundedPsbt), false)
	if err != nil {
		return nil, err
	}
	s := c03Signed(p.UnsignedTx)
	if w.cfg.NestedInput && len(s.TxIn) > 0 {
		s.TxIn[0].SignatureScript = append([]byte{0x16, 0x00, 0x14}, bytes.Repeat([]byte{0x5a}, 20)...)
	}
	w.obs.Final = s
	for i := range p.Inputs {
		var wb bytes.Buffer
		psbtWriteWitness(&wb, s.TxIn[i].Witness)
		p.Inputs[i].FinalScriptWitness = wb.Bytes()
	}
	var b bytes.Buffer
	if err := p.Serialize(&b); err != nil {
		return nil, err
	}
	return &walletrpc.FinalizePsbtResponse{SignedPsbt: b.Bytes(), RawFinalTx: c03TxBytes(s)}, nil
}

func psbtWriteWitness(b *bytes.Buffer, wit wire.TxWitness) {
	wire.WriteVarInt(b, 0, uint64(len(wit)))
	for _, it := range wit {
		wire.WriteVarBytes(b, 0, it)
	}
}

func (f *c03LndWalletKit) PublishTransaction(ctx context.Context, in *walletrpc.Transaction, opts ...grpc.CallOption) (*walletrpc.PublishResponse, error) {
	w := f.w
	w.mu.Lock()
	defer w.mu.Unlock()
	if w.cfg.BcastFail {
		return nil, errors.New("fake: publish failed")
	}
	w.obs.Broadcasts = append(w.obs.Broadcasts, append([]byte{}, in.TxHex...))
	return &walletrpc.PublishResponse{}, nil
}

func (f *c03LndWalletKit) LabelTransaction(ctx context.Context, in *walletrpc.LabelTransactionRequest, opts ...grpc.CallOption) (*walletrpc.LabelTransactionResponse, error) {
	return &walletrpc.LabelTransactionResponse{}, nil
}

type c03LndLightning struct {
	lnrpc.LightningClient
	w *c03Wallet
}

func (f *c03LndLightning) NewAddress(ctx context.Context, in *lnrpc.NewAddressRequest, opts ...grpc.CallOption) (*lnrpc.NewAddressResponse, error) {
	w := f.w
	w.mu.Lock()
	defer w.mu.Unlock()
	w.obs.AddrTypes = append(w.obs.AddrTypes, in.Type.String())
	if w.cfg.AddrFail {
		return nil, errors.New("fake: no address")
	}
	return &lnrpc.NewAddressResponse{Address: w.cfg.Addr}, nil
}

func c03NewLndClient(w *c03Wallet, chain *onchain.BitcoinOnChain) *pslnd.Client {
	return pslnd.VerifNewWalletClient(&c03LndLightning{w: w}, &c03LndWalletKit{w: w}, chain)
}

var _ = base64.StdEncoding
