package main

// Static lock/access skeleton extractor for C18 (deadlocks) and C19 (data races).
//
// Walks the production source (no build tags) of the packages that hold the files anchored by C18/C19
// with go/parser + go/types (export data of the dependencies comes from `go list -export`, so the type
// information is the compiler's own) and emits, per function reachable from the concurrent entry points,
// the ordered list of
//   Acq/Rel/DeferRel lock-class, Rd/Wr field-class, Call, DeferCall, Spawn (go statement),
//   CallIface (call through an interface declared in these packages), CallSlot/SpawnSlot (call through a
//   func-valued field, parameter, local or call result)
// together with the binding tables (interface method -> implementations found in these packages; slot ->
// functions that flow into it, derived from the registrations such as AddCsvCallback(s.OnCsvPassed)).
//
// Control flow is flattened to lexical order. That is sound for held-lock sets only when every branch /
// loop body is lock-balanced and no return leaves a lock behind; the extractor checks this and reports
// every place where it does not hold in `skel_warnings` (the Coq check demands that list to be empty).
// sync.RWMutex.RLock is emitted as an exclusive Acq; the side condition that makes this sound for the
// lockset analysis (no write and no call inside a read-locked region) is checked here as well.

import (
	"bytes"
	"encoding/json"
	"flag"
	"fmt"
	"go/ast"
	"go/importer"
	"go/parser"
	"go/token"
	"go/types"
	"io"
	"os"
	"os/exec"
	"path/filepath"
	"sort"
	"strings"
)

const c18Module = "github.com/elementsproject/peerswap/"

// packages whose functions are analysed
var c18Targets = []string{"swap", "policy", "txwatcher", "electrum", "lwk", "peersync"}

// the files the properties anchor (used for the evidence: functions/sites are reported with their file)
var c18Anchored = []string{"swap/service.go", "swap/fsm.go", "swap/actions.go", "policy/policy.go", "txwatcher/rpctxwatcher.go",
	"electrum/block_subscriber.go", "electrum/tx_observer.go", "lwk/electrumtxwatcher.go", "peersync/poller.go"}

// Concurrent entry points: every exported method of these types can be called from another goroutine
// (RPC server, plugin command handlers, message dispatcher, daemon main), plus the listed functions.
var c18RootTypes = []string{"swap.SwapService", "policy.Policy", "txwatcher.BlockchainRpcTxWatcher",
	"lwk.electrumTxWatcher", "electrum.liquidBlockHeaderSubscriber"}

// of SwapStateMachine only these are used from outside the swap package (RPC server / plugin commands wait for a state;
// SendEvent and Recover are listed although only the service calls them)
var c18RootFuncs = []string{"peersync.poller.start", "peersync.poller.PollAllPeers", "peersync.poller.ForcePollAllPeers",
	"swap.SwapStateMachine.WaitForStateChange", "swap.SwapStateMachine.SendEvent", "swap.SwapStateMachine.Recover"}

// Field classes that are tracked (C19): the fields of the long-lived objects that several goroutines reach -- the swap
// service with its machines and their data, the policy, the watchers, the block-header subscriber, the peer-sync
// poller -- and the package-level variables of the analysed packages. Values of other struct types (messages, parsed
// requests, peers loaded from the store for one call, observers) are created and used by one goroutine at a time or are
// immutable after construction; the extractor is instance-insensitive and would otherwise report every such type.
var c18SharedTypes = map[string]bool{
	"swap.SwapService": true, "swap.SwapStateMachine": true, "swap.SwapData": true, "swap.SwapServices": true, "swap.timeOutService": true,
	"policy.Policy": true,
	"txwatcher.BlockchainRpcTxWatcher": true, "txwatcher.CommonBlockchainObserver": true,
	"electrum.liquidBlockHeaderSubscriber": true,
	"lwk.electrumTxWatcher": true,
	"peersync.poller": true,
}

func c18Tracked(cls string) bool {
	i := strings.LastIndex(cls, ".")
	if i < 0 {
		return false
	}
	owner := cls[:i]
	if !strings.Contains(owner, ".") {
		return true // package-level variable: pkg.name
	}
	return c18SharedTypes[owner]
}

type c18Op struct {
	K    string `json:"k"`
	A    string `json:"a"`
	File string `json:"file"`
	Line int    `json:"line"`
}

type c18Func struct {
	Name string  `json:"name"`
	File string  `json:"file"`
	Line int     `json:"line"`
	Ops  []c18Op `json:"ops"`
}

type c18Skel struct {
	Funcs    map[string]*c18Func
	Ifaces   map[string][]string // interface method -> implementing functions
	Slots    map[string][]string // slot -> functions flowing into it
	Roots    []string
	Warnings []string
	Blocking []string // channel operations, select, cond.Wait, WaitGroup.Wait, time.Sleep: outside the model, listed for the evidence
	flows    [][2]string
	ifaceArg [][3]string // (iface method, arg index, node): func values passed through an interface call
	types    map[string]*types.Named
}

type c18Pkg struct {
	ImportPath string
	Dir        string
	GoFiles    []string
	Export     string
}

func c18GoList(repo string) (map[string]*c18Pkg, error) {
	args := []string{"list", "-export", "-deps", "-json=ImportPath,Dir,GoFiles,Export"}
	for _, t := range c18Targets {
		args = append(args, "./"+t)
	}
	cmd := exec.Command("go", args...)
	cmd.Dir = repo
	cmd.Env = append(os.Environ(), "GOFLAGS=-mod=mod", "GOPROXY=off", "GOSUMDB=off", "GOTOOLCHAIN=local")
	var stderr bytes.Buffer
	cmd.Stderr = &stderr
	out, err := cmd.Output()
	if err != nil {
		return nil, fmt.Errorf("go list: %v: %s", err, stderr.String())
	}
	pkgs := map[string]*c18Pkg{}
	dec := json.NewDecoder(bytes.NewReader(out))
	for {
		var p c18Pkg
		if err := dec.Decode(&p); err == io.EOF {
			break
		} else if err != nil {
			return nil, err
		}
		pp := p
		pkgs[p.ImportPath] = &pp
	}
	return pkgs, nil
}

func c18Short(path string) string { return strings.TrimPrefix(path, c18Module) }

func c18IsTargetPath(path string) bool {
	s := c18Short(path)
	if s == path {
		return false
	}
	for _, t := range c18Targets {
		if s == t {
			return true
		}
	}
	return false
}

func c18Named(t types.Type) *types.Named {
	for {
		switch x := t.(type) {
		case *types.Pointer:
			t = x.Elem()
		case *types.Alias:
			t = types.Unalias(x)
		case *types.Named:
			return x
		default:
			return nil
		}
	}
}

func c18TypeName(t types.Type) string {
	n := c18Named(t)
	if n == nil || n.Obj().Pkg() == nil {
		return ""
	}
	return c18Short(n.Obj().Pkg().Path()) + "." + n.Obj().Name()
}

func c18FuncName(f *types.Func) string {
	sig := f.Type().(*types.Signature)
	if r := sig.Recv(); r != nil {
		if tn := c18TypeName(r.Type()); tn != "" {
			return tn + "." + f.Name()
		}
	}
	if f.Pkg() == nil {
		return f.Name()
	}
	return c18Short(f.Pkg().Path()) + "." + f.Name()
}

func c18IsSync(t types.Type, names ...string) bool {
	n := c18Named(t)
	if n == nil || n.Obj().Pkg() == nil || n.Obj().Pkg().Path() != "sync" {
		return false
	}
	for _, x := range names {
		if n.Obj().Name() == x {
			return true
		}
	}
	return false
}

// c18TypeKey renders a type structurally without parameter names, so that method signatures can be compared across
// separately type-checked packages.
func c18TypeKey(t types.Type) string {
	switch x := t.(type) {
	case nil:
		return "nil"
	case *types.Alias:
		return c18TypeKey(types.Unalias(x))
	case *types.Basic:
		return x.Name()
	case *types.Named:
		s := x.Obj().Name()
		if x.Obj().Pkg() != nil {
			s = x.Obj().Pkg().Path() + "." + s
		}
		if ta := x.TypeArgs(); ta != nil {
			for i := 0; i < ta.Len(); i++ {
				s += "[" + c18TypeKey(ta.At(i)) + "]"
			}
		}
		return s
	case *types.Pointer:
		return "*" + c18TypeKey(x.Elem())
	case *types.Slice:
		return "[]" + c18TypeKey(x.Elem())
	case *types.Array:
		return fmt.Sprintf("[%d]%s", x.Len(), c18TypeKey(x.Elem()))
	case *types.Map:
		return "map[" + c18TypeKey(x.Key()) + "]" + c18TypeKey(x.Elem())
	case *types.Chan:
		return fmt.Sprintf("chan%d %s", x.Dir(), c18TypeKey(x.Elem()))
	case *types.Tuple:
		parts := []string{}
		for i := 0; i < x.Len(); i++ {
			parts = append(parts, c18TypeKey(x.At(i).Type()))
		}
		return "(" + strings.Join(parts, ",") + ")"
	case *types.Signature:
		v := ""
		if x.Variadic() {
			v = "..."
		}
		return "func" + v + c18TypeKey(x.Params()) + c18TypeKey(x.Results())
	case *types.Interface:
		parts := []string{}
		for i := 0; i < x.NumMethods(); i++ {
			parts = append(parts, x.Method(i).Name()+c18TypeKey(x.Method(i).Type()))
		}
		sort.Strings(parts)
		return "interface{" + strings.Join(parts, ";") + "}"
	case *types.Struct:
		parts := []string{}
		for i := 0; i < x.NumFields(); i++ {
			parts = append(parts, x.Field(i).Name()+" "+c18TypeKey(x.Field(i).Type()))
		}
		return "struct{" + strings.Join(parts, ";") + "}"
	}
	return t.String()
}

// implementations that exist only as test doubles (declared in non-test files): not bound to interfaces
var c18TestDoubles = map[string]bool{"swap.timeOutDummy": true, "swap.requestedSwapsStoreMock": true}

func c18IsFuncType(t types.Type) bool {
	if t == nil {
		return false
	}
	_, ok := t.Underlying().(*types.Signature)
	return ok
}

// ---------------------------------------------------------------- walker

type c18W struct {
	sk       *c18Skel
	repo     string
	fset     *token.FileSet
	pkg      *types.Package
	info     *types.Info
	fn       *c18Func
	held     []string // lexical held set (for the balance warnings)
	deferred []string
	rdepth   int // > 0 while lexically inside a read-locked region
	rdefer   bool
	loops    [][]string
	nclos    *int
	params   map[*types.Var]string
	lits     map[*ast.FuncLit]string
	fresh    map[*types.Var]bool // locals bound to an object allocated in this function (&T{...}, T{...}, new(T)): not shared yet
}

func c18IsAlloc(e ast.Expr) bool {
	switch x := ast.Unparen(e).(type) {
	case *ast.CompositeLit:
		return true
	case *ast.UnaryExpr:
		if x.Op == token.AND {
			_, ok := ast.Unparen(x.X).(*ast.CompositeLit)
			return ok
		}
	case *ast.CallExpr:
		if id, ok := x.Fun.(*ast.Ident); ok && id.Name == "new" {
			return true
		}
	}
	return false
}

func (w *c18W) isFresh(e ast.Expr) bool {
	id, ok := ast.Unparen(e).(*ast.Ident)
	if !ok || w.fresh == nil {
		return false
	}
	if v, ok := w.info.Uses[id].(*types.Var); ok {
		return w.fresh[v]
	}
	return false
}

func (w *c18W) pos(p token.Pos) (string, int) {
	ps := w.fset.Position(p)
	rel, err := filepath.Rel(w.repo, ps.Filename)
	if err != nil {
		rel = ps.Filename
	}
	return rel, ps.Line
}

func (w *c18W) warn(p token.Pos, format string, a ...interface{}) {
	f, l := w.pos(p)
	w.sk.Warnings = append(w.sk.Warnings, fmt.Sprintf("%s:%d: %s: ", f, l, w.fn.Name)+fmt.Sprintf(format, a...))
}

func (w *c18W) note(p token.Pos, what string) {
	f, l := w.pos(p)
	w.sk.Blocking = append(w.sk.Blocking, fmt.Sprintf("%s:%d: %s: %s", f, l, w.fn.Name, what))
}

func (w *c18W) emit(p token.Pos, k, a string) {
	if (k == "Rd" || k == "Wr") && !c18Tracked(a) {
		return
	}
	f, l := w.pos(p)
	w.fn.Ops = append(w.fn.Ops, c18Op{K: k, A: a, File: f, Line: l})
	if w.rdepth > 0 {
		switch k {
		case "Wr", "Call", "CallIface", "CallSlot", "Spawn", "SpawnSlot", "SpawnIface", "DeferCall", "DeferCallSlot":
			w.warn(p, "%s %s inside a read-locked (RLock) region: RLock cannot be treated as exclusive here", k, a)
		}
	}
	switch k {
	case "Acq":
		w.held = append(w.held, a)
	case "Rel":
		for i := len(w.held) - 1; i >= 0; i-- {
			if w.held[i] == a {
				w.held = append(append([]string{}, w.held[:i]...), w.held[i+1:]...)
				return
			}
		}
		w.warn(p, "release of %s which is not held lexically", a)
	case "DeferRel":
		w.deferred = append(w.deferred, a)
	}
}

func c18SameSet(a, b []string) bool {
	if len(a) != len(b) {
		return false
	}
	x := append([]string{}, a...)
	y := append([]string{}, b...)
	sort.Strings(x)
	sort.Strings(y)
	for i := range x {
		if x[i] != y[i] {
			return false
		}
	}
	return true
}

func (w *c18W) branch(p token.Pos, f func()) {
	saved := append([]string{}, w.held...)
	f()
	if !c18SameSet(saved, w.held) {
		w.warn(p, "branch is not lock-balanced (held before %v, after %v)", saved, w.held)
		w.held = saved
	}
}

func (w *c18W) flow(from, to string) {
	if from == "" || to == "" || from == to {
		return
	}
	w.sk.flows = append(w.sk.flows, [2]string{from, to})
}

// fieldClass names the struct field selected by sel; ok=false when the owner is not a named struct of the analysed packages.
func (w *c18W) fieldClass(sel *types.Selection) (string, bool) {
	t := sel.Recv()
	idx := sel.Index()
	if sel.Kind() != types.FieldVal {
		idx = idx[:len(idx)-1]
	}
	var cls string
	ok := false
	for _, i := range idx {
		n := c18Named(t)
		var st *types.Struct
		if n != nil {
			st, _ = n.Underlying().(*types.Struct)
		} else {
			u := t
			if p, isp := u.Underlying().(*types.Pointer); isp {
				u = p.Elem()
			}
			st, _ = u.Underlying().(*types.Struct)
		}
		if st == nil || i >= st.NumFields() {
			return "", false
		}
		f := st.Field(i)
		if n != nil && n.Obj().Pkg() != nil {
			cls = c18TypeName(n) + "." + f.Name()
			ok = c18IsTargetPath(n.Obj().Pkg().Path())
		} else {
			cls, ok = "", false
		}
		t = f.Type()
	}
	return cls, ok
}

func (w *c18W) isDataField(t types.Type) bool {
	return !c18IsSync(t, "Mutex", "RWMutex", "Cond", "WaitGroup", "Once")
}

// selRead: evaluation of a selector expression as a value
func (w *c18W) selRead(e *ast.SelectorExpr) {
	sel, ok := w.info.Selections[e]
	if !ok {
		// qualified identifier
		if v, isv := w.info.Uses[e.Sel].(*types.Var); isv && v.Pkg() != nil && c18IsTargetPath(v.Pkg().Path()) && w.isDataField(v.Type()) {
			w.emit(e.Pos(), "Rd", c18Short(v.Pkg().Path())+"."+v.Name())
		}
		return
	}
	w.expr(e.X)
	if sel.Kind() == types.FieldVal && !w.isFresh(e.X) {
		if cls, ok := w.fieldClass(sel); ok && w.isDataField(sel.Type()) {
			w.emit(e.Sel.Pos(), "Rd", cls)
		}
	}
}

func (w *c18W) identRead(e *ast.Ident) {
	if v, ok := w.info.Uses[e].(*types.Var); ok && !v.IsField() && v.Pkg() != nil && v.Parent() == v.Pkg().Scope() &&
		c18IsTargetPath(v.Pkg().Path()) && w.isDataField(v.Type()) {
		w.emit(e.Pos(), "Rd", c18Short(v.Pkg().Path())+"."+v.Name())
	}
}

// lhs: the expression is assigned to (or its container element is)
func (w *c18W) lhs(e ast.Expr) {
	switch x := ast.Unparen(e).(type) {
	case *ast.SelectorExpr:
		sel, ok := w.info.Selections[x]
		if !ok {
			if v, isv := w.info.Uses[x.Sel].(*types.Var); isv && v.Pkg() != nil && c18IsTargetPath(v.Pkg().Path()) {
				w.emit(x.Pos(), "Wr", c18Short(v.Pkg().Path())+"."+v.Name())
			}
			return
		}
		w.expr(x.X)
		if sel.Kind() == types.FieldVal && !w.isFresh(x.X) {
			if cls, ok := w.fieldClass(sel); ok && w.isDataField(sel.Type()) {
				w.emit(x.Sel.Pos(), "Wr", cls)
			}
		}
	case *ast.Ident:
		if v, ok := w.info.Uses[x].(*types.Var); ok && !v.IsField() && v.Pkg() != nil && v.Parent() == v.Pkg().Scope() && c18IsTargetPath(v.Pkg().Path()) {
			w.emit(x.Pos(), "Wr", c18Short(v.Pkg().Path())+"."+v.Name())
		}
	case *ast.IndexExpr:
		w.expr(x.Index)
		// element assignment mutates the container (map) or the shared backing array (slice): a write of the field holding it
		t := w.info.TypeOf(x.X)
		if t != nil {
			switch t.Underlying().(type) {
			case *types.Map, *types.Slice:
				w.lhs(x.X)
				return
			}
		}
		w.lhs(x.X)
	case *ast.StarExpr:
		w.expr(x.X)
		// *p = v : writes every field of the struct p points to
		if n := c18Named(w.info.TypeOf(x.X)); n != nil && n.Obj().Pkg() != nil && c18IsTargetPath(n.Obj().Pkg().Path()) {
			if st, ok := n.Underlying().(*types.Struct); ok {
				for i := 0; i < st.NumFields(); i++ {
					if w.isDataField(st.Field(i).Type()) {
						w.emit(x.Pos(), "Wr", c18TypeName(n)+"."+st.Field(i).Name())
					}
				}
			}
		}
	default:
		w.expr(e)
	}
}

// derefRead: `*p` read as a value of a struct type: reads all fields
func (w *c18W) starRead(x *ast.StarExpr) {
	w.expr(x.X)
	if n := c18Named(w.info.TypeOf(x.X)); n != nil && n.Obj().Pkg() != nil && c18IsTargetPath(n.Obj().Pkg().Path()) {
		if st, ok := n.Underlying().(*types.Struct); ok {
			for i := 0; i < st.NumFields(); i++ {
				if w.isDataField(st.Field(i).Type()) {
					w.emit(x.Pos(), "Rd", c18TypeName(n)+"."+st.Field(i).Name())
				}
			}
		}
	}
}

func (w *c18W) escapeRead(at ast.Expr, t types.Type, depth int) {
	if t == nil || depth == 0 || w.isFresh(at) {
		return
	}
	n := c18Named(t)
	if n == nil || n.Obj().Pkg() == nil || !c18SharedTypes[c18TypeName(n)] {
		return
	}
	st, ok := n.Underlying().(*types.Struct)
	if !ok {
		return
	}
	for i := 0; i < st.NumFields(); i++ {
		f := st.Field(i)
		if !w.isDataField(f.Type()) {
			continue
		}
		w.emit(at.Pos(), "Rd", c18TypeName(n)+"."+f.Name())
		if _, isPtr := f.Type().Underlying().(*types.Pointer); isPtr {
			w.escapeRead(at, f.Type(), depth-1)
		}
	}
}

func (w *c18W) closure(lit *ast.FuncLit) string {
	if n, ok := w.lits[lit]; ok {
		return n
	}
	*w.nclos++
	// name by enclosing top-level function and ordinal
	base := w.fn.Name
	if i := strings.Index(base, "$"); i >= 0 {
		base = base[:i]
	}
	name := fmt.Sprintf("%s$%d", base, *w.nclos)
	w.lits[lit] = name
	f, l := w.pos(lit.Pos())
	cf := &c18Func{Name: name, File: f, Line: l}
	w.sk.Funcs[name] = cf
	sub := &c18W{sk: w.sk, repo: w.repo, fset: w.fset, pkg: w.pkg, info: w.info, fn: cf, nclos: w.nclos, params: w.params, lits: w.lits}
	sub.bindParams(name, lit.Type)
	sub.stmt(lit.Body)
	sub.finish(lit.End())
	return name
}

func (w *c18W) bindParams(name string, ft *ast.FuncType) {
	if ft.Params == nil {
		return
	}
	i := 0
	for _, fld := range ft.Params.List {
		if len(fld.Names) == 0 {
			i++
			continue
		}
		for _, nm := range fld.Names {
			if v, ok := w.info.Defs[nm].(*types.Var); ok {
				w.params[v] = fmt.Sprintf("P:%s#%d", name, i)
			}
			i++
		}
	}
}

func (w *c18W) finish(end token.Pos) {
	// locks still held lexically at the end must be covered by deferred releases
	left := append([]string{}, w.held...)
	for _, d := range w.deferred {
		for i, h := range left {
			if h == d {
				left = append(left[:i], left[i+1:]...)
				break
			}
		}
	}
	if len(left) > 0 {
		w.warn(end, "function ends holding %v", left)
	}
}

// nodeOf: value-flow node of a func-typed expression ("" = untracked)
func (w *c18W) nodeOf(e ast.Expr) string {
	e = ast.Unparen(e)
	if t := w.info.TypeOf(e); t == nil || !c18IsFuncType(t) {
		return ""
	}
	switch x := e.(type) {
	case *ast.FuncLit:
		return "fn:" + w.closure(x)
	case *ast.SelectorExpr:
		if sel, ok := w.info.Selections[x]; ok {
			switch sel.Kind() {
			case types.MethodVal:
				m := sel.Obj().(*types.Func)
				if types.IsInterface(sel.Recv()) {
					return "im:" + c18FuncName(m)
				}
				return "fn:" + c18FuncName(m)
			case types.FieldVal:
				if cls, _ := w.fieldClass(sel); cls != "" {
					return "F:" + cls
				}
			}
			return ""
		}
		switch o := w.info.Uses[x.Sel].(type) {
		case *types.Func:
			return "fn:" + c18FuncName(o)
		case *types.Var:
			return "G:" + c18Short(o.Pkg().Path()) + "." + o.Name()
		}
	case *ast.Ident:
		switch o := w.info.Uses[x].(type) {
		case *types.Func:
			return "fn:" + c18FuncName(o)
		case *types.Var:
			if p, ok := w.params[o]; ok {
				return p
			}
			if o.Pkg() != nil && o.Parent() == o.Pkg().Scope() {
				return "G:" + c18Short(o.Pkg().Path()) + "." + o.Name()
			}
			return fmt.Sprintf("L:%s.%s@%d", w.fn.Name, o.Name(), w.fset.Position(o.Pos()).Line)
		}
		if o, ok := w.info.Defs[x].(*types.Var); ok {
			return fmt.Sprintf("L:%s.%s@%d", w.fn.Name, o.Name(), w.fset.Position(o.Pos()).Line)
		}
	case *ast.CallExpr:
		if tv, ok := w.info.Types[x.Fun]; ok && tv.IsType() && len(x.Args) == 1 {
			return w.nodeOf(x.Args[0])
		}
		kind, name := w.callee(x)
		switch kind {
		case "static":
			return "R:" + name
		case "slot":
			return "RS:" + name
		}
	}
	return ""
}

// callee classifies the function expression of a call: static (function of the analysed packages), ext (other
// function), iface (interface method of the analysed packages), extiface, slot (dynamic through a func value), lit, lock, conv, builtin
func (w *c18W) callee(c *ast.CallExpr) (string, string) {
	fun := ast.Unparen(c.Fun)
	if tv, ok := w.info.Types[fun]; ok && tv.IsType() {
		return "conv", ""
	}
	switch f := fun.(type) {
	case *ast.SelectorExpr:
		if sel, ok := w.info.Selections[f]; ok {
			switch sel.Kind() {
			case types.MethodVal:
				m := sel.Obj().(*types.Func)
				if m.Pkg() != nil && m.Pkg().Path() == "sync" {
					if r := m.Type().(*types.Signature).Recv(); r != nil && c18IsSync(r.Type(), "Mutex", "RWMutex") {
						return "lock", m.Name()
					}
				}
				if types.IsInterface(sel.Recv()) {
					if m.Pkg() != nil && c18IsTargetPath(m.Pkg().Path()) {
						// name by the interface type the method is declared in
						return "iface", c18FuncName(m)
					}
					return "extiface", c18FuncName(m)
				}
				if m.Pkg() != nil && c18IsTargetPath(m.Pkg().Path()) {
					return "static", c18FuncName(m)
				}
				return "ext", c18FuncName(m)
			case types.FieldVal:
				if cls, _ := w.fieldClass(sel); cls != "" {
					return "slot", "F:" + cls
				}
				return "slot", ""
			}
			return "ext", ""
		}
		switch o := w.info.Uses[f.Sel].(type) {
		case *types.Func:
			if o.Pkg() != nil && c18IsTargetPath(o.Pkg().Path()) {
				return "static", c18FuncName(o)
			}
			return "ext", c18FuncName(o)
		case *types.Var:
			return "slot", "G:" + c18Short(o.Pkg().Path()) + "." + o.Name()
		}
		return "ext", ""
	case *ast.Ident:
		switch o := w.info.Uses[f].(type) {
		case *types.Builtin:
			return "builtin", o.Name()
		case *types.Func:
			if o.Pkg() != nil && c18IsTargetPath(o.Pkg().Path()) {
				return "static", c18FuncName(o)
			}
			return "ext", c18FuncName(o)
		case *types.Var:
			return "slot", w.nodeOf(f)
		}
		return "ext", ""
	case *ast.FuncLit:
		return "lit", ""
	case *ast.CallExpr:
		return "slot", w.nodeOf(f)
	}
	return "ext", ""
}

func (w *c18W) lockClass(recv ast.Expr, sel *types.Selection) string {
	// promoted through an embedded sync.Mutex / sync.RWMutex
	if len(sel.Index()) > 1 {
		if cls, _ := w.fieldClass(sel); cls != "" {
			return cls
		}
	}
	switch x := ast.Unparen(recv).(type) {
	case *ast.SelectorExpr:
		if s2, ok := w.info.Selections[x]; ok && s2.Kind() == types.FieldVal {
			if cls, _ := w.fieldClass(s2); cls != "" {
				return cls
			}
		}
		if v, ok := w.info.Uses[x.Sel].(*types.Var); ok && v.Pkg() != nil {
			return c18Short(v.Pkg().Path()) + "." + v.Name()
		}
	case *ast.Ident:
		if v, ok := w.info.Uses[x].(*types.Var); ok {
			if v.Pkg() != nil && v.Parent() == v.Pkg().Scope() {
				return c18Short(v.Pkg().Path()) + "." + v.Name()
			}
			return "local:" + w.fn.Name + "." + v.Name()
		}
	case *ast.UnaryExpr:
		return w.lockClass(x.X, sel)
	}
	return "unknown:" + types.ExprString(recv)
}

// call handles a call expression in mode "call", "go" or "defer"
func (w *c18W) call(c *ast.CallExpr, mode string) {
	kind, name := w.callee(c)
	fun := ast.Unparen(c.Fun)
	// receiver / function expression is evaluated first
	switch kind {
	case "lock":
		f := fun.(*ast.SelectorExpr)
		sel := w.info.Selections[f]
		cls := w.lockClass(f.X, sel)
		switch name {
		case "Lock", "RLock":
			if mode != "call" {
				w.warn(c.Pos(), "%s of %s in a %s statement", name, cls, mode)
				return
			}
			w.emit(c.Pos(), "Acq", cls)
			if name == "RLock" {
				w.rdepth++
			}
		case "Unlock", "RUnlock":
			if mode == "defer" {
				w.emit(c.Pos(), "DeferRel", cls)
				if name == "RUnlock" {
					w.rdefer = true
				}
			} else if mode == "call" {
				w.emit(c.Pos(), "Rel", cls)
				if name == "RUnlock" && w.rdepth > 0 {
					w.rdepth--
				}
			} else {
				w.warn(c.Pos(), "%s of %s in a go statement", name, cls)
			}
		default:
			w.warn(c.Pos(), "%s on %s is not modelled", name, cls)
		}
		return
	case "conv":
		for _, a := range c.Args {
			w.expr(a)
		}
		return
	case "builtin":
		switch name {
		case "delete":
			if len(c.Args) == 2 {
				w.expr(c.Args[1])
				w.lhs(c.Args[0])
			}
			return
		case "close":
			w.note(c.Pos(), "close(chan)")
		}
		for _, a := range c.Args {
			w.expr(a)
		}
		return
	}
	if f, ok := fun.(*ast.SelectorExpr); ok {
		if sel, ok := w.info.Selections[f]; ok {
			if sel.Kind() == types.FieldVal {
				w.selRead(f)
			} else {
				w.expr(f.X)
			}
		}
	} else if f, ok := fun.(*ast.CallExpr); ok {
		w.call(f, "call")
	}
	for _, a := range c.Args {
		w.expr(a)
	}
	// blocking primitives outside the model
	if kind == "ext" {
		switch name {
		case "sync.Cond.Wait", "sync.WaitGroup.Wait", "time.Sleep":
			w.note(c.Pos(), name)
		}
	}
	opCall, opSlot := "Call", "CallSlot"
	switch mode {
	case "go":
		opCall, opSlot = "Spawn", "SpawnSlot"
	case "defer":
		opCall, opSlot = "DeferCall", "DeferCallSlot"
	}
	switch kind {
	case "static":
		w.emit(c.Pos(), opCall, name)
		for i, a := range c.Args {
			if n := w.nodeOf(a); n != "" {
				w.flow(n, fmt.Sprintf("P:%s#%d", name, i))
			}
		}
	case "lit":
		cn := w.closure(fun.(*ast.FuncLit))
		w.emit(c.Pos(), opCall, cn)
		for i, a := range c.Args {
			if n := w.nodeOf(a); n != "" {
				w.flow(n, fmt.Sprintf("P:%s#%d", cn, i))
			}
		}
	case "iface":
		op := "CallIface"
		if mode == "go" {
			op = "SpawnIface"
		} else if mode == "defer" {
			w.warn(c.Pos(), "deferred interface call %s is not modelled", name)
			return
		}
		w.emit(c.Pos(), op, name)
		for i, a := range c.Args {
			if n := w.nodeOf(a); n != "" {
				w.sk.ifaceArg = append(w.sk.ifaceArg, [3]string{name, fmt.Sprint(i), n})
				// the implementation may be outside the analysed packages (lightning client, messenger): the value escapes
				w.flow(n, "ESC:"+name)
			}
		}
	case "slot":
		if name == "" {
			return
		}
		w.emit(c.Pos(), opSlot, name)
	case "ext", "extiface":
		// a shared object handed to code outside the analysed packages (json.Marshal(swap), fmt): assumed to be read
		// completely, including the shared objects its fields point to
		for _, a := range c.Args {
			w.escapeRead(a, w.info.TypeOf(a), 2)
		}
		// func values handed to code outside the analysed packages: assumed to be invoked, here (unless this is a go
		// statement) and/or later from another goroutine
		for _, a := range c.Args {
			n := w.nodeOf(a)
			if n == "" {
				continue
			}
			slot := n
			if strings.HasPrefix(n, "fn:") {
				f, l := w.pos(a.Pos())
				slot = fmt.Sprintf("E:%s:%d", f, l)
				w.flow(n, slot)
			}
			if mode == "call" {
				w.emit(c.Pos(), "CallSlot", slot)
			}
			w.emit(c.Pos(), "SpawnSlot", slot)
		}
	}
}

func (w *c18W) expr(e ast.Expr) {
	switch x := e.(type) {
	case nil:
	case *ast.CallExpr:
		w.call(x, "call")
	case *ast.SelectorExpr:
		w.selRead(x)
	case *ast.Ident:
		w.identRead(x)
	case *ast.FuncLit:
		w.closure(x)
	case *ast.ParenExpr:
		w.expr(x.X)
	case *ast.StarExpr:
		if t := w.info.TypeOf(x); t != nil {
			if _, ok := t.Underlying().(*types.Struct); ok {
				w.starRead(x)
				return
			}
		}
		w.expr(x.X)
	case *ast.UnaryExpr:
		if x.Op == token.ARROW {
			w.note(x.Pos(), "channel receive")
		}
		w.expr(x.X)
	case *ast.BinaryExpr:
		w.expr(x.X)
		w.expr(x.Y)
	case *ast.IndexExpr:
		w.expr(x.X)
		w.expr(x.Index)
	case *ast.SliceExpr:
		w.expr(x.X)
		w.expr(x.Low)
		w.expr(x.High)
		w.expr(x.Max)
	case *ast.TypeAssertExpr:
		w.expr(x.X)
	case *ast.KeyValueExpr:
		w.expr(x.Value)
	case *ast.CompositeLit:
		var st *types.Struct
		var nm *types.Named
		if t := w.info.TypeOf(x); t != nil {
			nm = c18Named(t)
			st, _ = t.Underlying().(*types.Struct)
		}
		for i, el := range x.Elts {
			if kv, ok := el.(*ast.KeyValueExpr); ok {
				w.expr(kv.Value)
				if st != nil && nm != nil {
					if id, ok := kv.Key.(*ast.Ident); ok {
						if n := w.nodeOf(kv.Value); n != "" {
							w.flow(n, "F:"+c18TypeName(nm)+"."+id.Name)
						}
					}
				}
			} else {
				w.expr(el)
				if st != nil && nm != nil && i < st.NumFields() {
					if n := w.nodeOf(el); n != "" {
						w.flow(n, "F:"+c18TypeName(nm)+"."+st.Field(i).Name())
					}
				}
			}
		}
	}
}

func (w *c18W) assignFlow(l, r ast.Expr) {
	n := w.nodeOf(r)
	if n == "" {
		return
	}
	switch x := ast.Unparen(l).(type) {
	case *ast.SelectorExpr:
		if sel, ok := w.info.Selections[x]; ok && sel.Kind() == types.FieldVal {
			if cls, _ := w.fieldClass(sel); cls != "" {
				w.flow(n, "F:"+cls)
			}
		} else if v, ok := w.info.Uses[x.Sel].(*types.Var); ok && v.Pkg() != nil {
			w.flow(n, "G:"+c18Short(v.Pkg().Path())+"."+v.Name())
		}
	case *ast.Ident:
		if m := w.nodeOf(x); m != "" {
			w.flow(n, m)
		}
	}
}

func (w *c18W) stmt(s ast.Stmt) {
	switch x := s.(type) {
	case nil:
	case *ast.BlockStmt:
		for _, y := range x.List {
			w.stmt(y)
		}
	case *ast.ExprStmt:
		w.expr(x.X)
	case *ast.AssignStmt:
		for _, r := range x.Rhs {
			w.expr(r)
		}
		for _, l := range x.Lhs {
			if x.Tok != token.ASSIGN && x.Tok != token.DEFINE {
				w.expr(l)
			}
			w.lhs(l)
		}
		if len(x.Lhs) == len(x.Rhs) {
			for i := range x.Lhs {
				w.assignFlow(x.Lhs[i], x.Rhs[i])
				if id, ok := x.Lhs[i].(*ast.Ident); ok && x.Tok == token.DEFINE && c18IsAlloc(x.Rhs[i]) {
					if v, ok := w.info.Defs[id].(*types.Var); ok {
						if w.fresh == nil {
							w.fresh = map[*types.Var]bool{}
						}
						w.fresh[v] = true
					}
				}
			}
		}
	case *ast.IncDecStmt:
		w.expr(x.X)
		w.lhs(x.X)
	case *ast.GoStmt:
		w.call(x.Call, "go")
	case *ast.DeferStmt:
		w.call(x.Call, "defer")
	case *ast.ReturnStmt:
		for _, r := range x.Results {
			w.expr(r)
			if n := w.nodeOf(r); n != "" {
				w.flow(n, "R:"+w.fn.Name)
			}
		}
		left := append([]string{}, w.held...)
		for _, d := range w.deferred {
			for i, h := range left {
				if h == d {
					left = append(left[:i], left[i+1:]...)
					break
				}
			}
		}
		if len(left) > 0 {
			w.warn(x.Pos(), "return while holding %v", left)
		}
	case *ast.IfStmt:
		w.stmt(x.Init)
		w.expr(x.Cond)
		w.branch(x.Body.Pos(), func() { w.stmt(x.Body) })
		if x.Else != nil {
			w.branch(x.Else.Pos(), func() { w.stmt(x.Else) })
		}
	case *ast.ForStmt:
		w.stmt(x.Init)
		w.expr(x.Cond)
		w.loops = append(w.loops, append([]string{}, w.held...))
		w.branch(x.Body.Pos(), func() { w.stmt(x.Body); w.stmt(x.Post) })
		w.loops = w.loops[:len(w.loops)-1]
	case *ast.RangeStmt:
		w.expr(x.X)
		if x.Tok == token.ASSIGN {
			if x.Key != nil {
				w.lhs(x.Key)
			}
			if x.Value != nil {
				w.lhs(x.Value)
			}
		}
		if t := w.info.TypeOf(x.X); t != nil {
			if _, ok := t.Underlying().(*types.Chan); ok {
				w.note(x.Pos(), "range over channel")
			}
		}
		w.loops = append(w.loops, append([]string{}, w.held...))
		w.branch(x.Body.Pos(), func() { w.stmt(x.Body) })
		w.loops = w.loops[:len(w.loops)-1]
	case *ast.SwitchStmt:
		w.stmt(x.Init)
		w.expr(x.Tag)
		w.loops = append(w.loops, append([]string{}, w.held...))
		for _, cc := range x.Body.List {
			c := cc.(*ast.CaseClause)
			for _, e := range c.List {
				w.expr(e)
			}
			w.branch(c.Pos(), func() {
				for _, y := range c.Body {
					w.stmt(y)
				}
			})
		}
		w.loops = w.loops[:len(w.loops)-1]
	case *ast.TypeSwitchStmt:
		w.stmt(x.Init)
		w.stmt(x.Assign)
		w.loops = append(w.loops, append([]string{}, w.held...))
		for _, cc := range x.Body.List {
			c := cc.(*ast.CaseClause)
			w.branch(c.Pos(), func() {
				for _, y := range c.Body {
					w.stmt(y)
				}
			})
		}
		w.loops = w.loops[:len(w.loops)-1]
	case *ast.SelectStmt:
		w.note(x.Pos(), "select")
		w.loops = append(w.loops, append([]string{}, w.held...))
		for _, cc := range x.Body.List {
			c := cc.(*ast.CommClause)
			w.branch(c.Pos(), func() {
				w.stmt(c.Comm)
				for _, y := range c.Body {
					w.stmt(y)
				}
			})
		}
		w.loops = w.loops[:len(w.loops)-1]
	case *ast.SendStmt:
		w.expr(x.Chan)
		w.expr(x.Value)
		w.note(x.Pos(), "channel send")
	case *ast.LabeledStmt:
		w.stmt(x.Stmt)
	case *ast.BranchStmt:
		if (x.Tok == token.CONTINUE || x.Tok == token.BREAK) && len(w.loops) > 0 {
			if !c18SameSet(w.loops[len(w.loops)-1], w.held) {
				w.warn(x.Pos(), "%s with lock state %v different from the loop entry %v", x.Tok, w.held, w.loops[len(w.loops)-1])
			}
		} else if x.Tok == token.GOTO {
			w.warn(x.Pos(), "goto is not modelled")
		}
	case *ast.DeclStmt:
		if gd, ok := x.Decl.(*ast.GenDecl); ok {
			for _, sp := range gd.Specs {
				if vs, ok := sp.(*ast.ValueSpec); ok {
					for _, v := range vs.Values {
						w.expr(v)
					}
					if len(vs.Names) == len(vs.Values) {
						for i := range vs.Names {
							w.assignFlow(vs.Names[i], vs.Values[i])
						}
					}
				}
			}
		}
	}
}

// ---------------------------------------------------------------- driver

func c18Extract(repo string) (*c18Skel, error) {
	pkgs, err := c18GoList(repo)
	if err != nil {
		return nil, err
	}
	fset := token.NewFileSet()
	imp := importer.ForCompiler(fset, "gc", func(path string) (io.ReadCloser, error) {
		p, ok := pkgs[path]
		if !ok || p.Export == "" {
			return nil, fmt.Errorf("no export data for %s", path)
		}
		return os.Open(p.Export)
	})
	sk := &c18Skel{Funcs: map[string]*c18Func{}, Ifaces: map[string][]string{}, Slots: map[string][]string{}, types: map[string]*types.Named{}}
	type methodSet map[string]string // method name -> signature string
	concrete := map[string]methodSet{} // type name -> methods (pointer receiver method set)
	ifaces := map[string]methodSet{}
	exported := map[string][]string{} // type name -> exported method function names
	for _, t := range c18Targets {
		p := pkgs[c18Module+t]
		if p == nil {
			return nil, fmt.Errorf("package %s not listed", t)
		}
		var files []*ast.File
		for _, gf := range p.GoFiles {
			f, err := parser.ParseFile(fset, filepath.Join(p.Dir, gf), nil, parser.SkipObjectResolution)
			if err != nil {
				return nil, err
			}
			files = append(files, f)
		}
		info := &types.Info{Types: map[ast.Expr]types.TypeAndValue{}, Defs: map[*ast.Ident]types.Object{}, Uses: map[*ast.Ident]types.Object{},
			Selections: map[*ast.SelectorExpr]*types.Selection{}}
		var terrs []string
		conf := types.Config{Importer: imp, Error: func(err error) { terrs = append(terrs, err.Error()) }}
		tp, _ := conf.Check(p.ImportPath, fset, files, info)
		if len(terrs) > 0 {
			return nil, fmt.Errorf("type errors in %s: %s", t, strings.Join(terrs[:min(len(terrs), 5)], "; "))
		}
		// method tables for interface binding
		sc := tp.Scope()
		for _, nm := range sc.Names() {
			tn, ok := sc.Lookup(nm).(*types.TypeName)
			if !ok {
				continue
			}
			named, ok := tn.Type().(*types.Named)
			if !ok {
				continue
			}
			tname := c18TypeName(named)
			if it, ok := named.Underlying().(*types.Interface); ok {
				ms := methodSet{}
				for i := 0; i < it.NumMethods(); i++ {
					m := it.Method(i)
					ms[m.Name()] = c18TypeKey(m.Type())
				}
				ifaces[tname] = ms
				continue
			}
			if c18TestDoubles[tname] || strings.HasSuffix(fset.Position(tn.Pos()).Filename, "/mocks.go") {
				continue
			}
			ms := methodSet{}
			mset := types.NewMethodSet(types.NewPointer(named))
			for i := 0; i < mset.Len(); i++ {
				m := mset.At(i).Obj().(*types.Func)
				ms[m.Name()] = c18TypeKey(m.Type()) + "|" + c18FuncName(m)
				if m.Exported() {
					exported[tname] = append(exported[tname], c18FuncName(m))
				}
			}
			concrete[tname] = ms
		}
		nclos := 0
		params := map[*types.Var]string{}
		lits := map[*ast.FuncLit]string{}
		for _, f := range files {
			for _, d := range f.Decls {
				fd, ok := d.(*ast.FuncDecl)
				if !ok || fd.Body == nil {
					continue
				}
				obj, ok := info.Defs[fd.Name].(*types.Func)
				if !ok {
					continue
				}
				name := c18FuncName(obj)
				rel, _ := filepath.Rel(repo, fset.Position(fd.Pos()).Filename)
				cf := &c18Func{Name: name, File: rel, Line: fset.Position(fd.Pos()).Line}
				sk.Funcs[name] = cf
				nclos = 0
				w := &c18W{sk: sk, repo: repo, fset: fset, pkg: tp, info: info, fn: cf, nclos: &nclos, params: params, lits: lits}
				w.bindParams(name, fd.Type)
				w.stmt(fd.Body)
				w.finish(fd.End())
			}
		}
	}
	// interface bindings: implementations among the analysed packages, compared by method name and signature text
	for iname, ims := range ifaces {
		for tname, cms := range concrete {
			okAll := len(ims) > 0
			for m, sig := range ims {
				c, ok := cms[m]
				if !ok || c[:strings.LastIndex(c, "|")] != sig {
					okAll = false
					break
				}
			}
			if !okAll {
				continue
			}
			for m := range ims {
				c := cms[m]
				sk.Ifaces[iname+"."+m] = append(sk.Ifaces[iname+"."+m], c[strings.LastIndex(c, "|")+1:])
			}
			_ = tname
		}
	}
	for k := range sk.Ifaces {
		sort.Strings(sk.Ifaces[k])
	}
	// func values passed through interface calls reach the parameters of the implementations
	for _, ia := range sk.ifaceArg {
		for _, impl := range sk.Ifaces[ia[0]] {
			sk.flows = append(sk.flows, [2]string{ia[2], "P:" + impl + "#" + ia[1]})
		}
	}
	// value-flow closure: which functions reach which node
	val := map[string]map[string]bool{}
	add := func(node, fn string) bool {
		if val[node] == nil {
			val[node] = map[string]bool{}
		}
		if val[node][fn] {
			return false
		}
		val[node][fn] = true
		return true
	}
	for changed := true; changed; {
		changed = false
		for _, e := range sk.flows {
			from, to := e[0], e[1]
			if strings.HasPrefix(from, "fn:") {
				if add(to, from[3:]) {
					changed = true
				}
				continue
			}
			if strings.HasPrefix(from, "im:") {
				for _, impl := range sk.Ifaces[from[3:]] {
					if add(to, impl) {
						changed = true
					}
				}
				continue
			}
			if strings.HasPrefix(from, "RS:") {
				// results of whatever flows into the slot
				for f := range val[from[3:]] {
					for g := range val["R:"+f] {
						if add(to, g) {
							changed = true
						}
					}
				}
				continue
			}
			for f := range val[from] {
				if add(to, f) {
					changed = true
				}
			}
		}
	}
	slotFns := func(slot string) []string {
		m := map[string]bool{}
		if strings.HasPrefix(slot, "RS:") {
			for f := range val[slot[3:]] {
				for g := range val["R:"+f] {
					m[g] = true
				}
			}
		} else if strings.HasPrefix(slot, "R:") {
			for g := range val[slot] {
				m[g] = true
			}
		} else {
			for f := range val[slot] {
				m[f] = true
			}
		}
		out := []string{}
		for f := range m {
			if _, ok := sk.Funcs[f]; ok {
				out = append(out, f)
			}
		}
		sort.Strings(out)
		return out
	}
	for _, f := range sk.Funcs {
		for _, op := range f.Ops {
			if op.K == "CallSlot" || op.K == "SpawnSlot" || op.K == "DeferCallSlot" {
				if _, ok := sk.Slots[op.A]; !ok {
					sk.Slots[op.A] = slotFns(op.A)
				}
			}
		}
	}
	// func values that escaped through an interface call into code outside the analysed packages (AddPaymentCallback,
	// AddMessageHandler): concurrent entry points
	escaped := map[string]bool{}
	for node, fs := range val {
		if strings.HasPrefix(node, "ESC:") && len(sk.Ifaces[node[4:]]) == 0 {
			for f := range fs {
				escaped[f] = true
			}
		}
	}
	roots := map[string]bool{}
	for _, t := range c18RootTypes {
		for _, m := range exported[t] {
			roots[m] = true
		}
	}
	for _, f := range c18RootFuncs {
		roots[f] = true
	}
	for f := range escaped {
		roots[f] = true
	}
	for r := range roots {
		if _, ok := sk.Funcs[r]; ok {
			sk.Roots = append(sk.Roots, r)
		}
	}
	sort.Strings(sk.Roots)
	// prune to the functions reachable from the roots
	reach := map[string]bool{}
	var visit func(string)
	visit = func(f string) {
		if reach[f] {
			return
		}
		fn, ok := sk.Funcs[f]
		if !ok {
			return
		}
		reach[f] = true
		for _, op := range fn.Ops {
			switch op.K {
			case "Call", "Spawn", "DeferCall":
				visit(op.A)
			case "CallIface", "SpawnIface":
				for _, g := range sk.Ifaces[op.A] {
					visit(g)
				}
			case "CallSlot", "SpawnSlot", "DeferCallSlot":
				for _, g := range sk.Slots[op.A] {
					visit(g)
				}
			}
		}
	}
	for _, r := range sk.Roots {
		visit(r)
	}
	for n := range sk.Funcs {
		if !reach[n] {
			delete(sk.Funcs, n)
		}
	}
	// keep only warnings / notes of reachable functions
	keep := func(xs []string) []string {
		out := []string{}
		for _, x := range xs {
			parts := strings.SplitN(x, ": ", 3)
			if len(parts) >= 2 && reach[parts[1]] {
				out = append(out, x)
			}
		}
		sort.Strings(out)
		return out
	}
	sk.Warnings = keep(sk.Warnings)
	sk.Blocking = keep(sk.Blocking)
	return sk, nil
}

// ---------------------------------------------------------------- Coq / JSON output

type c18Index struct {
	names []string
	id    map[string]int
}

func c18NewIndex(xs map[string]bool) *c18Index {
	ix := &c18Index{id: map[string]int{}}
	for x := range xs {
		ix.names = append(ix.names, x)
	}
	sort.Strings(ix.names)
	for i, x := range ix.names {
		ix.id[x] = i
	}
	return ix
}

func (ix *c18Index) coq() string { return CoqStrList(ix.names) }

func c18Render(sk *c18Skel) (string, map[string]interface{}) {
	fnS, lockS, fieldS, ifS, slotS := map[string]bool{}, map[string]bool{}, map[string]bool{}, map[string]bool{}, map[string]bool{}
	for n, f := range sk.Funcs {
		fnS[n] = true
		for _, op := range f.Ops {
			switch op.K {
			case "Acq", "Rel", "DeferRel":
				lockS[op.A] = true
			case "Rd", "Wr":
				fieldS[op.A] = true
			case "CallIface", "SpawnIface":
				ifS[op.A] = true
			case "CallSlot", "SpawnSlot", "DeferCallSlot":
				slotS[op.A] = true
			}
		}
	}
	fns, locks, fields, ifs, slots := c18NewIndex(fnS), c18NewIndex(lockS), c18NewIndex(fieldS), c18NewIndex(ifS), c18NewIndex(slotS)
	var b strings.Builder
	b.WriteString("(* lock/access skeletons extracted from the source of swap, policy, txwatcher, electrum, lwk, peersync *)\n")
	b.WriteString("From Coq Require Import String NArith List.\nImport ListNotations.\nOpen Scope N_scope.\nOpen Scope string_scope.\n\n(* op codes: 0 Acq l, 1 Rel l, 2 DeferRel l, 3 Rd f, 4 Wr f, 5 Call g, 6 DeferCall g, 7 Spawn g, 8 CallIface m, 9 SpawnIface m, 10 CallSlot s, 11 SpawnSlot s, 12 DeferCallSlot s *)\n")
	fmt.Fprintf(&b, "Definition skel_fn_names : list string := %s.\n", fns.coq())
	fmt.Fprintf(&b, "Definition skel_lock_names : list string := %s.\n", locks.coq())
	fmt.Fprintf(&b, "Definition skel_field_names : list string := %s.\n", fields.coq())
	fmt.Fprintf(&b, "Definition skel_iface_names : list string := %s.\n", ifs.coq())
	fmt.Fprintf(&b, "Definition skel_slot_names : list string := %s.\n\n", slots.coq())
	b.WriteString("Definition skel_funs : list (N * list (N * N)) := [\n")
	for i, n := range fns.names {
		f := sk.Funcs[n]
		ops := []string{}
		for _, op := range f.Ops {
			var t string
			switch op.K {
			case "Acq":
				t = fmt.Sprintf("(0,%d)", locks.id[op.A])
			case "Rel":
				t = fmt.Sprintf("(1,%d)", locks.id[op.A])
			case "DeferRel":
				t = fmt.Sprintf("(2,%d)", locks.id[op.A])
			case "Rd":
				t = fmt.Sprintf("(3,%d)", fields.id[op.A])
			case "Wr":
				t = fmt.Sprintf("(4,%d)", fields.id[op.A])
			case "Call":
				if _, ok := fns.id[op.A]; !ok {
					continue
				}
				t = fmt.Sprintf("(5,%d)", fns.id[op.A])
			case "DeferCall":
				if _, ok := fns.id[op.A]; !ok {
					continue
				}
				t = fmt.Sprintf("(6,%d)", fns.id[op.A])
			case "Spawn":
				if _, ok := fns.id[op.A]; !ok {
					continue
				}
				t = fmt.Sprintf("(7,%d)", fns.id[op.A])
			case "CallIface":
				t = fmt.Sprintf("(8,%d)", ifs.id[op.A])
			case "SpawnIface":
				t = fmt.Sprintf("(9,%d)", ifs.id[op.A])
			case "CallSlot":
				t = fmt.Sprintf("(10,%d)", slots.id[op.A])
			case "SpawnSlot":
				t = fmt.Sprintf("(11,%d)", slots.id[op.A])
			case "DeferCallSlot":
				t = fmt.Sprintf("(12,%d)", slots.id[op.A])
			default:
				continue
			}
			ops = append(ops, t)
		}
		sep := ";"
		if i == len(fns.names)-1 {
			sep = ""
		}
		fmt.Fprintf(&b, "  (* %s  %s:%d *)\n  (%d, [%s])%s\n", n, f.File, f.Line, i, strings.Join(ops, "; "), sep)
	}
	b.WriteString("].\n\n")
	bind := func(name string, ix *c18Index, m map[string][]string) {
		fmt.Fprintf(&b, "Definition %s : list (N * list N) := [\n", name)
		for i, n := range ix.names {
			ids := []string{}
			for _, g := range m[n] {
				if id, ok := fns.id[g]; ok {
					ids = append(ids, fmt.Sprint(id))
				}
			}
			sep := ";"
			if i == len(ix.names)-1 {
				sep = ""
			}
			fmt.Fprintf(&b, "  (* %s -> %s *)\n  (%d, [%s])%s\n", n, strings.Join(m[n], ", "), i, strings.Join(ids, "; "), sep)
		}
		b.WriteString("].\n\n")
	}
	bind("skel_ifaces", ifs, sk.Ifaces)
	bind("skel_slots", slots, sk.Slots)
	rs := []string{}
	for _, r := range sk.Roots {
		if id, ok := fns.id[r]; ok {
			rs = append(rs, fmt.Sprint(id))
		}
	}
	fmt.Fprintf(&b, "Definition skel_roots : list N := [%s].\n\n", strings.Join(rs, "; "))
	fmt.Fprintf(&b, "Definition skel_warnings : list string := %s.\n\n", CoqStrList(sk.Warnings))
	b.WriteString("(* blocking primitives the skeleton does not model (evidence only) *)\n")
	fmt.Fprintf(&b, "Definition skel_blocking : list string := %s.\n\n", CoqStrList(sk.Blocking))
	js := map[string]interface{}{
		"fn_names": fns.names, "lock_names": locks.names, "field_names": fields.names, "iface_names": ifs.names, "slot_names": slots.names,
		"funcs": sk.Funcs, "ifaces": sk.Ifaces, "slots": sk.Slots, "roots": sk.Roots, "warnings": sk.Warnings, "blocking": sk.Blocking,
		"anchored_files": c18Anchored, "root_types": c18RootTypes, "root_funcs": c18RootFuncs, "shared_types": c18SharedTypes,
	}
	return b.String(), js
}

func c18SkelText() (string, map[string]interface{}, error) {
	repo, err := peerswapDir()
	if err != nil {
		return "", nil, err
	}
	sk, err := c18Extract(repo)
	if err != nil {
		return "", nil, err
	}
	txt, js := c18Render(sk)
	return txt, js, nil
}

func init() {
	registerDump("Skel.v", func() (string, error) {
		txt, _, err := c18SkelText()
		return txt, err
	})
	register("skel", "extract the lock/access skeleton of the anchored concurrency code (C18/C19): writes skel.json (+ Skel.v with -coq)", func(args []string) error {
		fs := flag.NewFlagSet("skel", flag.ExitOnError)
		out := fs.String("out", "", "output directory")
		_ = fs.Uint64("seed", 1, "unused")
		coq := fs.Bool("coq", false, "also write Skel.v into the output directory")
		fs.Parse(args)
		txt, js, err := c18SkelText()
		if err != nil {
			return err
		}
		if *out == "" {
			fmt.Print(txt)
			return nil
		}
		if err := os.MkdirAll(*out, 0o755); err != nil {
			return err
		}
		if *coq {
			if err := os.WriteFile(filepath.Join(*out, "Skel.v"), []byte(txt), 0o644); err != nil {
				return err
			}
		}
		data, _ := json.MarshalIndent(js, "", " ")
		return os.WriteFile(filepath.Join(*out, "skel.json"), data, 0o644)
	})
}
