package main

// Scenario driver for the real SwapService / SwapStateMachine: one swap per
// scenario, every step is one service entry point; for each step a Coq case
// (pre machine, input, served world, observed outcome + effects) is emitted.

import (
	"encoding/hex"
	"errors"
	"flag"
	"fmt"
	"os"
	"path/filepath"
	"sort"
	"strings"
	"sync"
	"time"

	"github.com/btcsuite/btcd/btcec/v2"
	"github.com/elementsproject/peerswap/messages"
	"github.com/elementsproject/peerswap/premium"
	"github.com/elementsproject/peerswap/swap"
	"go.etcd.io/bbolt"
)

type Node struct {
	env   *Env
	db    *bbolt.DB
	svc   *swap.SwapService
	store *fakeStore
	msgr  *fakeMessenger
	mgr   *fakeManager
	ln    *fakeLightning
	btc   *fakeChain
	lbtc  *fakeChain
	to    *swap.VerifTimeouts
	ps    *premium.Setting
}

func newNode(env *Env, db *bbolt.DB) (*Node, error) {
	inner, err := swap.NewBboltStore(db)
	if err != nil {
		return nil, err
	}
	ps, err := premium.NewSetting(db)
	if err != nil {
		return nil, err
	}
	n := &Node{env: env, db: db, ps: ps}
	n.store = &fakeStore{env: env, inner: inner}
	n.msgr = &fakeMessenger{env: env}
	n.mgr = &fakeManager{env: env}
	n.ln = &fakeLightning{env: env}
	n.btc = &fakeChain{env: env, chain: "btc"}
	n.lbtc = &fakeChain{env: env, chain: "lbtc"}
	services := swap.NewSwapServices(n.store, &fakeReqStore{env}, n.ln, n.msgr, n.mgr, &fakePolicy{env},
		env.BitcoinEnabled, n.btc, n.btc, n.btc, env.LiquidEnabled, n.lbtc, n.lbtc, n.lbtc, ps)
	n.svc = swap.NewSwapService(services)
	to, err := n.svc.VerifStart()
	if err != nil {
		return nil, err
	}
	to.OnArm = func(id string, d time.Duration) {
		env.effect("EArmTimer", map[string]interface{}{"e": "ArmTimer", "seconds": d.Seconds()})
	}
	n.to = to
	return n, nil
}

type stepRecord struct {
	Pre     string // Coq machine
	Input   string // Coq input
	World   string
	Post    string // Coq machine
	Removed bool
	Err     string // Coq option err_kind
	Effects []string
	JS      map[string]interface{}
	Kind    string
	NonTriv bool
	Obs     string // term produced by the active step observer
}

type Scen struct {
	r            *Rng
	env          *Env
	node         *Node
	dir          string
	role         string // out_sender, out_receiver, in_sender, in_receiver
	chain        string
	version      uint8
	id           *swap.SwapId
	peer         string
	self         string
	scid         string
	amount       uint64
	held         *swap.SwapStateMachine
	peerKey      *btcec.PrivateKey
	lastPeerMsg  []byte
	lastPeerType messages.MessageType
	prevBlind    string
	clean        bool
	prevPreimage string
	steps        []stepRecord
	// intercept (optional, set by a property's own driver): takes over a step before it runs,
	// e.g. to run it with a crash injected; handled=false lets doStep proceed as usual
	intercept func(sp stepSpec) (handled bool, err error, panicked bool)
}

func tableName(role string) string {
	return "table_swap_" + role
}

func errKind(err error) string {
	switch {
	case err == nil:
		return "ErrNone"
	case errors.Is(err, swap.ErrEventRejected):
		return "ErrRejected"
	case errors.Is(err, swap.ErrFsmConfig):
		return "ErrFsmConfig"
	case errors.Is(err, swap.AlreadyExistsError):
		return "ErrApply"
	case errors.Is(err, errFake):
		return "ErrStore"
	}
	return ""
}

func coqOptU32(v *uint32) string {
	if v == nil {
		return "None"
	}
	return fmt.Sprintf("(Some %d%%Z)", *v)
}
func coqOptU64(v *uint64) string {
	if v == nil {
		return "None"
	}
	return fmt.Sprintf("(Some %d%%Z)", *v)
}
func coqOptBool(v *bool) string {
	if v == nil {
		return "None"
	}
	return "(Some " + CoqBool(*v) + ")"
}
func mapList[T any](xs []T, f func(T) string) string {
	ys := make([]string, len(xs))
	for i, x := range xs {
		ys[i] = f(x)
	}
	return CoqList(ys)
}

func (sc *Scen) worldTerm(d *swap.SwapData, suspAtStart bool) string {
	e := sc.env
	s := &e.served
	chain := d.GetChain()
	asset, network := "", ""
	switch chain {
	case "btc":
		network = e.BtcNetwork
	case "lbtc":
		asset = e.LbtcAsset
	}
	// premium the real premium.Setting computes for this swap
	prem := "None"
	if d.GetRequest() != nil {
		at := premium.BTC
		if d.GetNetwork() == "" {
			at = premium.LBTC
		}
		op := premium.SwapIn
		if d.SwapOutRequest != nil {
			op = premium.SwapOut
		}
		if v, err := sc.node.ps.Compute(d.PeerNodeId, at, op, d.GetAmount()); err == nil {
			prem = "(Some " + CoqZ(v) + ")"
		}
	}
	own := ""
	if k := d.GetPrivkey(); k != nil {
		own = hex.EncodeToString(k.PubKey().SerializeCompressed())
	}
	hashes := []string{}
	seen := map[string]bool{}
	addHash := func(p string) {
		if p != "" && !seen[p] {
			seen[p] = true
			hashes = append(hashes, CoqPair(CoqStr(p), CoqStr(hashOf(p))))
		}
	}
	addHash(d.ClaimPreimage)
	for _, p := range s.Preimage {
		addHash(p[0])
	}
	parts := []string{
		CoqBool(e.SwapsAllowed), CoqBool(e.LiquidEnabled), CoqBool(e.BitcoinEnabled), CoqZu(e.MinAmountMsat),
		CoqBool(e.PeerAllowed), CoqBool(suspAtStart), CoqStr(asset), CoqStr(network),
		prem, CoqStr(own), CoqList(hashes),
		mapList(s.Height, coqOptU32), mapList(s.Send, CoqBool), mapList(s.Store, CoqBool),
		mapList(s.Pay, coqOptStr), mapList(s.RecoverPay, coqOptStr), mapList(s.PayFee, coqOptStr),
		mapList(s.MkInvoice, coqOptStr), mapList(s.FeeEst, coqOptU64), mapList(s.Balance, coqOptU64),
		mapList(s.Spendable, coqOptU64), mapList(s.Probe, coqOptBool),
		mapList(s.CreateOpening, func(o *OpeningRes) string {
			if o == nil {
				return "None"
			}
			return fmt.Sprintf("(Some (mkOpening %s %s %s))", CoqStr(o.Hex), CoqStr(o.Txid), CoqZu(uint64(o.Vout)))
		}),
		mapList(s.Spend, coqOptStr), mapList(s.Script, CoqBool), mapList(s.Validate, coqOptBool),
		mapList(s.AddSender, CoqBool), mapList(s.AddSusp, CoqBool),
		mapList(s.Preimage, func(p [2]string) string { return CoqPair(CoqStr(p[0]), CoqStr(p[1])) }),
		mapList(s.Blind, CoqStr), "false",
	}
	return "(mkWorld " + strings.Join(parts, " ") + ")"
}

func (sc *Scen) current() *swap.SwapStateMachine {
	if sc.id == nil {
		return nil
	}
	return sc.node.svc.VerifActiveSwap(sc.id.String())
}

func emptyDataTerm(peer, initiator, privHex string) string {
	return fmt.Sprintf("(mkData None None None None None None None %s %s %s %s 0%%Z %s 0%%Z false %s %s %s %s None %s)",
		CoqStr(peer), CoqStr(initiator), CoqStr(privHex), CoqStr(""), CoqStr(""), CoqStr(""), CoqStr(""), CoqStr(""), CoqStr(""), CoqStr(""))
}

func coqFreshMachine(post *swap.SwapStateMachine) string {
	return fmt.Sprintf("(mkMachine %s %d %d %s %s %s 0)", CoqStr(idStr(post.SwapId)), int(post.Type), int(post.Role), CoqStr(""), CoqStr(""),
		emptyDataTerm(post.Data.PeerNodeId, post.Data.InitiatorNodeId, hex.EncodeToString(post.Data.PrivkeyBytes)))
}

type stepSpec struct {
	kind     string
	input    func(post *swap.SwapStateMachine) string
	plan     Plan
	precheck []string
	fresh    bool // the machine is created by this step
	restart  bool
	wantErr  bool // the handler's error is the SendEvent error (compare its kind)
	call     func() error
}

// doStep runs one entry point on the real service and records the case.
func (sc *Scen) doStep(sp stepSpec) (err error, panicked bool) {
	if sc.intercept != nil {
		if handled, ierr, ipan := sc.intercept(sp); handled {
			return ierr, ipan
		}
	}
	e := sc.env
	for _, h := range doStepHooks {
		h(sc, &sp) // additive: per-property files may adjust the plan / wrap the call of a step (registerDoStepHook)
	}
	pre := ""
	if !sp.fresh {
		if sp.restart {
			m, gerr := sc.node.store.GetData(sc.id.String())
			if gerr != nil {
				return gerr, false
			}
			pre = coqMachine(m, 0)
		} else {
			m := sc.current()
			if m == nil {
				// the swap is not active: the entry point cannot reach a machine (service-level matter)
				func() {
					defer func() { recover() }()
					err = sp.call()
				}()
				return err, false
			}
			sc.held = m
			pre = coqMachine(m, m.VerifRetries())
		}
	}
	suspAtStart := e.PeerSuspicious
	e.beginStep(sp.plan, sp.precheck...)
	extBeginStep(sc, &sp) // per-property hook (fsm_ext.go), e.g. arm a crash point
	func() {
		defer func() {
			if rec := recover(); rec != nil {
				panicked = true
			}
		}()
		err = sp.call()
	}()
	var post *swap.SwapStateMachine
	retries := 0
	if sc.id != nil {
		if m := sc.current(); m != nil {
			post, retries = m, m.VerifRetries()
		} else if sc.held != nil && !sp.restart && !sp.fresh {
			post, retries = sc.held, sc.held.VerifRetries()
		} else if m, gerr := sc.node.store.GetData(sc.id.String()); gerr == nil {
			post = m
		}
	}
	if post == nil {
		return err, panicked // no machine-level step happened (service-level rejection)
	}
	sc.held = post
	ek := "None"
	if sp.wantErr {
		k := errKind(err)
		if panicked {
			k = "ErrPanic"
		}
		if k == "" {
			return err, panicked // rejected before reaching the machine (unexpected peer, unknown swap, ...)
		}
		ek = "(Some " + k + ")"
	} else if panicked {
		ek = "(Some ErrPanic)"
	}
	if sp.fresh {
		pre = coqFreshMachine(post)
	}
	// fresh values generated inside the code rather than through a fake
	d := post.Data
	s := &e.served
	if d.BlindingKeyHex != "" && d.BlindingKeyHex != sc.prevBlind {
		s.Blind = append(s.Blind, d.BlindingKeyHex)
	}
	sc.prevBlind = d.BlindingKeyHex
	if sc.isMaker() && d.ClaimPreimage != "" && d.ClaimPreimage != sc.prevPreimage {
		found := false
		for _, p := range s.Preimage {
			if p[0] == d.ClaimPreimage {
				found = true
			}
		}
		if !found {
			s.Preimage = append([][2]string{{d.ClaimPreimage, hashOf(d.ClaimPreimage)}}, s.Preimage...)
		}
	}
	sc.prevPreimage = d.ClaimPreimage
	removed := sc.node.svc.VerifActiveSwap(post.SwapId.String()) == nil
	rec := stepRecord{
		Pre: pre, Input: sp.input(post), World: sc.worldTerm(d, suspAtStart), Post: coqMachine(post, retries), Removed: removed, Err: ek,
		Effects: append([]string{}, e.effects...), Kind: sp.kind, NonTriv: len(e.effects) > 1,
		JS: map[string]interface{}{"input": sp.kind, "state_after": string(post.Current), "removed": removed, "effects": e.effJSON},
	}
	if extRecord(sc, &rec, panicked) { // per-property hook (fsm_ext.go): true = the step is not recorded (simulated crash)
		return err, panicked
	}
	if activeObserver != nil {
		rec.Obs = activeObserver(sc, &rec)
	}
	sc.steps = append(sc.steps, rec)
	return err, panicked
}

func (sc *Scen) isMaker() bool { return sc.role == "out_receiver" || sc.role == "in_sender" }

func hexType(t messages.MessageType) string { return messages.MessageTypeToHexString(t) }

type fsmOpts struct {
	out      string
	seed     uint64
	n        int
	procs    int
	monitor  string // Coq function fsm_case -> bool evaluated on the observed scenario
	imports  string // extra "From PS Require Import ..." line for the monitor
	focus    string // bias of the generator (property id), "" = uniform
	observer string // name of a registered step observer ("" = none)
	casetype string // Coq type of one case (default fsm_case)
	check    string // Coq correspondence function (default fsm_check)
}

// Step observers: per-property side observations of a step that the shared effect
// vocabulary does not carry (e.g. a byte scan of the messages sent). An observer
// returns one Coq term per step; with -observer NAME every case becomes the pair
// (scenario, [obs_1; ...; obs_n]) and -casetype / -check must be given accordingly.
type stepObserver func(sc *Scen, rec *stepRecord) string

var stepObservers = map[string]stepObserver{}

func registerObserver(name string, f stepObserver) { stepObservers[name] = f }

var activeObserver stepObserver

// doStepHooks run at the start of every doStep (init-time registration by per-property files)
var doStepHooks []func(sc *Scen, sp *stepSpec)

func registerDoStepHook(h func(sc *Scen, sp *stepSpec)) { doStepHooks = append(doStepHooks, h) }

func init() {
	register("fsm", "drive the real swap state machines; emit step-level correspondence cases", func(args []string) error {
		fs := flag.NewFlagSet("fsm", flag.ExitOnError)
		out := fs.String("out", "/verif/work/fsm", "output dir")
		seed := fs.Uint64("seed", 1, "seed")
		n := fs.Int("n", 60, "scenarios")
		procs := fs.Int("procs", 32, "parallel scenarios")
		mon := fs.String("monitor", "fsm_monitor", "Coq monitor function (fsm_case -> bool)")
		imp := fs.String("imports", "", "extra Coq import line for the monitor")
		focus := fs.String("focus", "", "generator focus (property id)")
		obs := fs.String("observer", "", "registered step observer")
		ct := fs.String("casetype", "fsm_case", "Coq type of one case")
		chk := fs.String("check", "fsm_check", "Coq correspondence function")
		fs.Parse(args)
		os.Setenv("PAYMENT_RETRY_TIME", "2")
		if *obs != "" {
			f, ok := stepObservers[*obs]
			if !ok {
				return fmt.Errorf("unknown observer %q", *obs)
			}
			activeObserver = f
		}
		return runFsm(fsmOpts{*out, *seed, *n, *procs, *mon, *imp, *focus, *obs, *ct, *chk})
	})
}

func runFsm(o fsmOpts) error {
	if err := os.MkdirAll(o.out, 0o755); err != nil {
		return err
	}
	dbdir := filepath.Join(o.out, "db")
	os.RemoveAll(dbdir)
	os.MkdirAll(dbdir, 0o755)
	addFocusDirected(o.focus)
	// the directed scenarios (the corpus of shapes that matter) always run in full, followed by random ones
	if min := len(directedScenarios) + 24; o.n < min {
		o.n = min
	}
	master := NewRng(o.seed)
	seeds := make([]uint64, o.n)
	for i := range seeds {
		seeds[i] = master.U64()
	}
	results := make([]*Scen, o.n)
	var wg sync.WaitGroup
	sem := make(chan struct{}, o.procs)
	for i := 0; i < o.n; i++ {
		wg.Add(1)
		sem <- struct{}{}
		go func(i int) {
			defer wg.Done()
			defer func() { <-sem }()
			sc, err := runScenario(seeds[i], i, filepath.Join(dbdir, fmt.Sprintf("s%d.db", i)), o.focus)
			if err != nil {
				fmt.Fprintf(os.Stderr, "scenario %d: %v\n", i, err)
				return
			}
			results[i] = sc
		}(i)
	}
	wg.Wait()
	os.RemoveAll(dbdir)

	cf := NewCaseFile("From PS Require Import Model.Data Model.Actions Model.Fsm Gen.Tables Gen.ConstsSwap Model.FsmCorr.\n"+o.imports,
		o.casetype, o.check, o.monitor)
	for i, sc := range results {
		if sc == nil {
			continue
		}
		steps := []string{}
		js := []interface{}{}
		kinds := []string{}
		for _, st := range sc.steps {
			steps = append(steps, fmt.Sprintf("mkStep %s\n      %s\n      %s\n      %s %s %s\n      %s",
				st.Pre, "("+st.Input+")", st.World, st.Post, CoqBool(st.Removed), st.Err, CoqList(st.Effects)))
			js = append(js, st.JS)
			kinds = append(kinds, st.Kind)
		}
		dec := []string{}
		for k, v := range sc.env.Decode {
			dec = append(dec, CoqPair(CoqStr(k), CoqTuple(CoqStr(v.Hash), CoqZu(v.Msat), CoqZ(v.Cltv))))
		}
		sort.Strings(dec)
		term := fmt.Sprintf("mkScenario %s %s %s", tableName(sc.role), CoqList(dec), "[\n    "+strings.Join(steps, ";\n    ")+"]")
		if activeObserver != nil {
			obs := []string{}
			for _, st := range sc.steps {
				obs = append(obs, st.Obs)
			}
			term = "(" + term + ", " + CoqList(obs) + ")"
		}
		final := ""
		if sc.held != nil {
			final = string(sc.held.Current)
		}
		cf.Add(term, fmt.Sprintf("%s|%s|%s|%s", sc.role, sc.chain, strings.Join(kinds, ","), final), len(sc.steps) > 1,
			fmt.Sprintf("%s/%s/final=%s", sc.role, sc.chain, final),
			map[string]interface{}{"scenario": i, "seed": seeds[i], "role": sc.role, "chain": sc.chain, "version": sc.version, "steps": js})
	}
	return cf.Write(o.out, 8, map[string]interface{}{"seed": o.seed})
}
